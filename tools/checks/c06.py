"""C06 - size_bytes_checked is safe and exact on untrusted buffers.

1. spec/Fits.tla (EXTENDS View): Fits(buf, n) / FitsGroup(buf, gli, ga, n) walk
   the structure the *buffer* describes with a remaining budget, paying for
   every header / dimension / length prefix before reading it, flat entries by
   division.  TLC model-checks, for every message of every schema, every chosen
   shape, every view (message + every group instance), every overwrite of one
   blockLength / numInGroup / length field with {0, 1, fit-1, fit+1, type max}
   (thorough: also pairs) and EVERY n in 0..size+Pad:
     FitsInBounds        nothing at offset >= n is read
     FitsExact           valid <=> StructEnd(buf) <= n, size exact; on
                         well-formed images StructEnd is the denotational size
     FitsBoundedWork     steps <= K(schema) * (n + 1)
     StructIsOperational StructEnd = View.tla's OpMsgSize / OpGroupSize
   and emits one vector per explored call (ACTION_CONSTRAINT EmitFits).
2. harness/c06_fits.cpp replays every vector on the real
   sbepp::size_bytes_checked of the sbeppc-generated views (accessors called by
   name through tools/viewgen.py + tools/fitsgen.py): the first n bytes are
   end-aligned against a PROT_NONE page; valid / size compared with the
   vector; SIGSEGV, an invoked assertion handler (checked builds), more steps
   than max_steps (step hook) or an exhausted CPU budget (no hook) are
   mismatches.

Python never computes an expected value: it runs the tools and moves JSON.
"""
import json
import os
import random
import shutil
import time

import catalogue
import fitsgen
import schema as sch
import viewgen
import viewpipe
import vlib
from catalogue import F, G, D, dim, vardata, header
from vlib import mc, tlc, try_cxx, run_harness, write_ndjson

HARNESS = os.path.join(vlib.HARNESS, "c06_fits.cpp")
INVARIANTS = ["FTypeOK", "FitsInBounds", "FitsExact", "FitsBoundedWork", "TablesAreSbeImage", "StructIsOperational"]
PAIR_MOD = 37            # thorough: pairs of fields of different headers, 1 in 37
CPU_BUDGET_MS = 200      # per call; a normal call costs < 2 us: >= 10^5 x


def zschema(package, byte_order, hdr_bl="uint16"):
    """Zero-length entries, nested empty blocks, every length / dimension width."""
    types = [header(types=(hdr_bl, "uint16", "uint16", "uint16")),
             dim(), dim("dim8", bl="uint8", num="uint8"), dim("dim32", bl="uint16", num="uint32"),
             dim("dim64", bl="uint64", num="uint64", order=("numInGroup", "blockLength")),
             vardata("var8", "uint8", "char"), vardata("var16", "uint16", "uint8"),
             vardata("var32", "uint32", "uint8"), vardata("var64", "uint64", "uint8")]
    S = {"package": package, "id": 78, "version": 1, "byteOrder": byte_order, "types": types, "messages": []}
    m = S["messages"]
    # flat groups whose entries have no fields (blockLength 0), every numInGroup width
    m.append(G("zflat", 1, fields=[F("x", 1, "uint8")],
               groups=[G("z16", 10, fields=[]), G("z32", 11, dimensionType="dim32", fields=[]),
                       G("z64", 12, dimensionType="dim64", fields=[]),
                       G("z8", 13, dimensionType="dim8", fields=[F("a", 1, "uint8")])],
               data=[D("d8", 20, "var8")]))
    # nested groups with empty blocks, data of every length width
    m.append(G("znest", 2, fields=[],
               groups=[G("outer", 10, dimensionType="dim8", fields=[],
                         groups=[G("inner", 11, dimensionType="dim32", fields=[])],
                         data=[D("od", 12, "var16")]),
                       G("wide", 13, dimensionType="dim64", fields=[F("a", 1, "uint16")],
                         groups=[G("leaf", 14, fields=[F("b", 1, "uint8")])])],
               data=[D("d32", 20, "var32"), D("d64", 21, "var64")]))
    # three levels, the inner group NOT flat (it carries data / a sub-group), outer and inner block lengths
    # differ, sibling after the nested group: the per-group state of a walk must be restored after each
    # nested group (shapes with 2 outer entries are in every tier)
    m.append(G("zdeep", 4, fields=[F("a", 1, "uint16")],
               groups=[G("outer", 10, blockLength=8, fields=[F("x", 1, "uint32")],
                         groups=[G("inner", 11, dimensionType="dim8", fields=[F("y", 1, "uint16")],
                                   data=[D("d", 12, "var8")]),
                                 G("inner2", 13, fields=[F("z", 1, "uint8")], blockLength=3,
                                   groups=[G("leaf", 14, dimensionType="dim8", fields=[F("w", 1, "uint8")])])]),
                       G("after", 15, dimensionType="dim32", fields=[F("b", 1, "uint32")],
                         data=[D("ad", 16, "var16")])],
               data=[D("tail", 20, "var16")]))
    # only data, every length width
    m.append(G("zdata", 3, fields=[F("k", 1, "uint32")],
               data=[D("a", 1, "var8"), D("b", 2, "var16"), D("c", 3, "var32"), D("d", 4, "var64")]))
    return S


def c06_schemas():
    return [zschema("c06z", "littleEndian"), zschema("c06y", "bigEndian", "uint64")]


def all_schemas(tier="quick", seed=1):
    # + schemas built by spec/SchemaBuild.tla (the same ones the view machine gets)
    import schemabuild
    gen = schemabuild.generated_schemas(10 if tier == "thorough" else 3, seed)[:4 if tier == "thorough" else 1]
    # + the repository's own schemas (tools/xmlimport.py): two messages each (quick), all (thorough)
    return catalogue.view_schemas() + c06_schemas() + gen + viewpipe.repo_schemas(tier, seed, 8 if tier == "thorough" else 2, naming=False)


# (compiler, standard, mode, optimisation); mode rel = SBEPP_DISABLE_ASSERTS,
# chk = assertions and size checks with handler
CONFIGS_QUICK = [("g++", "c++17", "rel", "-O1"), ("clang++", "c++20", "chk", "-O1")]
CONFIGS_THOROUGH = [(c, s, ("rel", "chk")[(i + j) % 2], "-O1")
                    for i, c in enumerate(("g++", "clang++"))
                    for j, s in enumerate(("c++11", "c++14", "c++17", "c++20", "c++2b"))] + \
                   [("g++", "c++17", "rel", "-O0"), ("clang++", "c++14", "rel", "-O2"), ("g++", "c++11", "chk", "-O0")]


def shapes_for(m, tier, rnd):
    """Scope selection only: which abstract messages TLC explores."""
    nl = viewpipe.count_levels(m)
    k = {"quick": 3, "thorough": 6}[tier] if nl > 1 else {"quick": 2, "thorough": 3}[tier]
    pool = viewpipe.choose_shapes(nl, 24, rnd)
    order = [0, 5, 4, 1, 3, 2] + list(range(6, len(pool)))
    out = []
    for i in order:
        if i < len(pool) and pool[i] not in out:
            out.append(pool[i])
    return out[:k]


def prepare(S, wd):
    name = S["package"]
    inc = vlib.gen_headers(sch.to_xml(S), name)
    sdir = vlib.ensure_dir(os.path.join(wd, name))
    d1 = os.path.join(sdir, "dispatch_%s.inc" % name)
    d2 = os.path.join(sdir, "fits_%s.inc" % name)
    vlib.write(d1, viewgen.dispatch_cpp(S))
    vlib.write(d2, fitsgen.dispatch_cpp(S))
    return inc, sdir, d1, d2


def build(S, cfg, inc, d1, d2):
    comp, std, mode, opt = cfg
    flags = ["-std=" + std, opt, "-w", '-DVH_DISPATCH="%s"' % d1, '-DC06_DISPATCH="%s"' % d2]
    if mode == "chk":
        flags.append("-DC06_CHECKED")
    return try_cxx(HARNESS, flags=flags, compiler=comp, includes=[inc], deps=[d1, d2],
                   name="c06-%s-%s-%s-%s%s" % (S["package"], comp, std, mode, opt))


class TlcOut:
    """What the check needs from one TLC run (vectors stay on disk)."""
    def __init__(self, ok, violated, raw, distinct, generated, wall, nvec, path, cached):
        self.ok, self.violated, self.raw = ok, violated, raw
        self.distinct, self.generated, self.wall, self.nvec, self.path, self.cached = distinct, generated, wall, nvec, path, cached


def tlc_message(S, mi, shapes, sdir, pairs, pairmod, workers):
    """TLC on one message; the emitted vectors are streamed to an ndjson file.
    The result depends on the spec, the schema and the scope only (never on
    /repo), so it is cached content-addressed like the view pipeline's
    results (VERIF_NOCACHE=1 disables)."""
    stla = viewgen.schema_tla(S)
    body = "SDef == %s\nShapesDef == {%s}\n" % (stla, ",\n ".join(viewpipe.shape_tla(*s) for s in shapes))
    cfg = ("CONSTANT S <- SDef\nCONSTANT MI = %d\nCONSTANT Shapes <- ShapesDef\nCONSTANT Margin = 0\n"
           "CONSTANT Pad = 8\nCONSTANT Pairs = %s\nCONSTANT PairMod = %d\nINIT FInit\nNEXT FNext\n"
           % (mi, "TRUE" if pairs else "FALSE", pairmod))
    cfg += "".join("INVARIANT %s\n" % i for i in INVARIANTS)
    cfg += "ACTION_CONSTRAINT EmitFits\n"
    specs = [os.path.join(vlib.SPEC, f) for f in ("Fits.tla", "View.tla", "SbeImage.tla", "Sbe.tla")]
    key = vlib.sha(body, cfg, vlib.file_hash(specs))
    base = os.path.join(vlib.ensure_dir(os.path.join(vlib.CACHE, "c06")), "%s-%d-%s" % (S["package"], mi, key))
    if os.path.exists(base + ".json") and os.path.exists(base + ".ndjson") and os.environ.get("VERIF_NOCACHE") != "1":
        j = json.load(open(base + ".json"))
        return TlcOut(True, None, "", j["distinct"], j["generated"], j["wall"], j["vectors"], base + ".ndjson", True)
    d = os.path.join(sdir, "mc-%d" % mi)
    mc(d, "MC_Fits", "Fits", body, cfg)
    tmp = base + ".tmp%d" % os.getpid()
    cnt = [0]
    with open(tmp, "w") as f:
        def on_record(rec):
            f.write(json.dumps(rec, separators=(",", ":")) + "\n")
            cnt[0] += 1
        r = tlc("MC_Fits", cwd=d, workers=workers, xmx="3g", timeout=2400, on_record=on_record)
    out = TlcOut(r.ok, r.violated, r.raw, r.distinct, r.generated, r.wall, cnt[0], base + ".ndjson", False)
    if r.ok:
        os.replace(tmp, base + ".ndjson")
        vlib.write(base + ".json", json.dumps({"distinct": r.distinct, "generated": r.generated, "wall": r.wall, "vectors": cnt[0]}))
    else:
        os.remove(tmp)
    return out


def sample_of(x):
    s = dict(x)
    s["buf"] = "%d bytes: %s..." % (len(s["buf"]), s["buf"][:24])
    return s


def run(v, tier, seed):
    thorough = tier == "thorough"
    wd = vlib.ensure_dir(os.path.join(vlib.WORK, "c06", "run-" + tier))
    schemas = all_schemas(tier, seed)
    configs = CONFIGS_THOROUGH if thorough else CONFIGS_QUICK
    prep = {}
    for S in schemas:
        try:
            prep[S["package"]] = prepare(S, wd)
        except vlib.SbeppcRejected as ex:
            v.violation("pipeline/sbeppc-rejects/" + S["package"], "sbeppc rejects a schema of the C06 scope: " + str(ex)[-800:])
    schemas = [S for S in schemas if S["package"] in prep]

    # ---- 1. TLC per message + harness builds, one pool (<= 8 cores) --------
    jobs = []
    for S in schemas:
        for mi, m in enumerate(S["messages"], 1):
            nl = viewpipe.count_levels(m)
            shapes = shapes_for(m, tier, random.Random("%s-%s-%d" % (seed, S["package"], mi)))
            jobs.append(("tlc", S, mi, shapes, 2 if nl > 2 else 1))
        for ci, cfg in enumerate(configs):
            # thorough: the full matrix on the little-endian schemas, every third configuration on the big-endian twins
            if thorough and S.get("byteOrder") == "bigEndian" and ci % 3 != 0:
                continue
            jobs.append(("cxx", S, cfg))
    # big TLC jobs first so that they do not end up last in the pool
    jobs.sort(key=lambda j: (0 if j[0] == "tlc" and j[4] == 2 else 1 if j[0] == "cxx" else 2))

    def do(job):
        S = job[1]
        inc, sdir, d1, d2 = prep[S["package"]]
        if job[0] == "cxx":
            return job, build(S, job[2], inc, d1, d2)
        _, _, mi, shapes, workers = job
        return job, tlc_message(S, mi, shapes, sdir, thorough, PAIR_MOD if thorough else 0, workers)

    vectors = {S["package"]: [] for S in schemas}
    bins = {S["package"]: [] for S in schemas}
    states = trans = 0
    t0 = time.time()
    results = vlib.parallel(jobs, do, nproc=6)
    vlib.log("C06: TLC + builds %.0fs" % (time.time() - t0))
    for job, r in results:
        S = job[1]
        name = S["package"]
        if job[0] == "cxx":
            ok, out = r
            if not ok:
                v.violation("compile/%s/%s-%s-%s%s" % ((name,) + job[2]),
                            "harness / dispatch does not compile against the generated headers:\n" + out[-1500:])
            else:
                bins[name].append((job[2], out))
            continue
        mname = S["messages"][job[2] - 1]["name"]
        v.part("tlc_%s_%s" % (name, mname), shapes=len(job[3]), distinct=r.distinct, generated=r.generated,
               vectors=r.nvec, wall_s=round(r.wall, 1), from_cache=r.cached)
        if not r.ok:
            v.violation("spec/%s/%s/%s" % (name, mname, r.violated),
                        "Fits.tla violates %s in the model itself (the reference walk disagrees with its own "
                        "specification):\n%s" % (r.violated, r.raw[-1500:]))
            continue
        states += r.distinct
        trans += r.generated
        vectors[name].append((job[2], r.path, r.nvec))

    # ---- 2. replay ---------------------------------------------------------
    runs = []
    for S in schemas:
        name = S["package"]
        vp = os.path.join(prep[name][1], "vectors.ndjson")
        with open(vp, "wb") as out:
            for _, path, _ in sorted(vectors[name]):
                with open(path, "rb") as f:
                    shutil.copyfileobj(f, out)
        for cfg, b in bins[name]:
            runs.append((name, cfg, b, vp))

    def replay_run(r):
        name, cfg, b, vp = r
        return r, run_harness(b, ["replay", name, vp, CPU_BUDGET_MS], timeout=3000)

    evals = replayed = 0
    distinct = {}
    hook = None
    t0 = time.time()
    replays = vlib.parallel(runs, replay_run, nproc=8)
    vlib.log("C06: replay %.0fs" % (time.time() - t0))
    for (name, cfg, b, vp), (mism, stat, p) in replays:
        tag = "%s_%s_%s_%s%s" % ((name,) + cfg)
        v.part("replay_" + tag, **{k: stat[k] for k in ("evaluations", "calls", "distinct", "hook", "mode", "timeouts",
                                                       "skipped_after_repeated_timeout", "max_call_ns", "mean_call_ns",
                                                       "max_steps_seen", "per_kind", "mismatches")})
        evals += stat["evaluations"]
        replayed += stat["calls"]
        distinct[name] = max(distinct.get(name, 0), stat["distinct"])
        hook = stat["hook"] if hook is None else (hook and stat["hook"])
        for m in mism:
            v.violation(m["sig"], "[%s %s %s %s, schema %s] %s" % (cfg + (name, m["desc"])),
                        {"harness": "c06_fits", "schema": name, "config": list(cfg), "case": m["case"]})

    nvec = sum(n for files in vectors.values() for _, _, n in files)
    samples = []
    for name in vectors:
        wants = [("message", True), ("group", False), ("message", False)]
        for _, path, _ in sorted(vectors[name], reverse=True):
            with open(path) as f:
                for i, line in enumerate(f):
                    if i > 4000 or not wants:
                        break
                    x = json.loads(line)
                    for w in wants:
                        if x["view"] == w[0] and (x["cor"] == "none") == w[1] and x["n"] > 12:
                            samples.append(sample_of(x))
                            wants.remove(w)
                            break
        if len(samples) >= 6:
            break
    v.add(states=states, transitions=trans, evaluations=evals, distinct_nontrivial=sum(distinct.values()),
          traces_validated_against_impl=replayed, vectors=nvec, step_hook_present=bool(hook), samples=samples,
          rule="one vector per (message shape, view in {message, every group instance}, overwrite of one "
               "blockLength/numInGroup/length field with {0,1,fit-1,fit+1,type max}%s or none, n in 0..size+8) "
               "explored by TLC; distinct = distinct (view, n, first n bytes) inputs actually presented to "
               "size_bytes_checked, as counted by the harness (per schema, max over configurations)"
               % (" and pairs of overwrites (all pairs inside one dimension, 1 in %d of the others)" % PAIR_MOD if thorough else ""),
          exhaustive=False)
    v.assumptions += ["little-endian host", "TLC and the installed compilers are trusted",
                      "scope: tools/catalogue.py view schemas + the zero-length / 64-bit schemas of this module, seeded shapes",
                      "header values >= 2^24 are one class ('huge') in the spec; the buffer bytes replayed are the exact values",
                      "work bound: %s" % ("step counter hook (SBEPP_VERIF_STEP) compared with the spec's max_steps" if hook else
                                          "hook absent from the tree: only the CPU budget of %d ms per call (> 10^5 x the normal cost) "
                                          "detects unbounded work; bounded excess work is not visible" % CPU_BUDGET_MS)]
    return v.finish("model_checking",
                    "Fits.tla model-checked (in-bounds, exactness against an independent forward size computation and the "
                    "denotational size, bounded work) and every explored call replayed on the generated views with the "
                    "buffer end-aligned against a guard page")


def replay(rp):
    case = rp.get("case") or {}
    print(json.dumps({k: rp[k] for k in ("property", "signature", "desc")}, indent=1))
    if "case" not in case or "vector" not in case["case"]:
        print("no vector recorded; re-run ./verif check C06")
        return 0
    S = [s for s in all_schemas() if s["package"] == case["schema"]][0]
    wd = vlib.ensure_dir(os.path.join(vlib.WORK, "c06", "replay"))
    inc, sdir, d1, d2 = prepare(S, wd)
    ok, b = build(S, tuple(case["config"]), inc, d1, d2)
    if not ok:
        print("harness does not build:\n" + b[-2000:])
        return 2
    vp = os.path.join(sdir, "one.ndjson")
    write_ndjson(vp, [case["case"]["vector"]])
    mism, stat, p = run_harness(b, ["replay", case["schema"], vp, CPU_BUDGET_MS])
    for m in mism:
        print("MISMATCH %s: %s" % (m["sig"], m["desc"]))
    print("reproduced" if mism else "does not reproduce on this tree")
    return 1 if mism else 0
