"""C04 - cursor access is equivalent to random access and tracks position;
misuse is reported.  Cursor.tla: every (level instance, cursor position,
member, wrapper, get|set) transition, its legality and documented landing
position; TableLaws / LevelWalk model-checked; every transition replayed on
the generated accessors with the assertion handler installed."""
import viewpipe
from checks._view import run_view_check, replay  # noqa: F401


def want(case, sig):
    # single cursor calls, and whole-message cursor traversals (visit_children /
    # cursor_range / cursor_subrange walks: positions at every callback, end)
    return sig.startswith("cursor") or sig.startswith("visit/")


def run(v, tier, seed):
    return run_view_check(v, tier, seed, want, [viewpipe.cursor_results, viewpipe.visit_results, viewpipe.gen_cursor_results, viewpipe.gen_visit_results,
                                                viewpipe.repo_cursor_results, viewpipe.repo_visit_results],
                          "one vector per cursor-accessor transition: (level instance, cursor position in {required position, +1, member start/end, level start/end, unset}, member, wrapper, get|set) on images incl. inflated block lengths",
                          "Cursor.tla (legality + landing table of DESIGN.md Appendix A) model-checked (TableLaws, LevelWalk) and every transition replayed: returned value/view, cursor position, buffer, and that illegal calls reach the assertion handler")
