"""C19 - visiting enumerates members faithfully.  Visit.tla: the log of a
recursive visitor (DenLog from the abstract message = OpLog from walking the
buffer with the cursor protocol), every stop point k; replayed with a real
recursive visitor built on sbepp::visit_children, one tagkey specialisation per
generated tag so tag identity is observed."""
import viewpipe
from checks._view import run_view_check, replay  # noqa: F401


def want(case, sig):
    return sig.startswith("visit/") or "by-tag" in sig


def run(v, tier, seed):
    return run_view_check(v, tier, seed, want, [viewpipe.visit_results, viewpipe.view_results, viewpipe.cursor_results, viewpipe.gen_visit_results, viewpipe.gen_view_results,
                                                viewpipe.repo_visit_results, viewpipe.repo_view_results],
                          "one vector per (schema, message, shape, stop point k): expected callback log prefix with value/view, tag key and cursor position at each callback",
                          "Visit.tla: VisitOrderComplete (operational walk = denotational member order) and VisitLandsAtEnd model-checked; every stop point replayed with a recursive visitor on the generated classes (read-only, exact-size buffer)")
