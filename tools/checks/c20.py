"""C20 - sbeppc's exit status is truthful and its output deterministic.

Design level: TLC model-checks spec/Sbeppc.tla (every position and kind of a
single fault over every plan with <= 3 directories, <= 3 files, <= 3 writes per
file, fresh / populated / stale directory, re-run).

Binding (fault enumeration): for each of three schemas the real sbeppc is run
under harness/ioshim.c
  (a) fault-free: its output calls become the plan, its files the reference;
  (b) with the k-th mkdir/open/write (thorough: close, too) failing with
      ENOSPC / EACCES / EIO or writing short, and with the k-th input-file
      open failing;
  (c) again into fresh, populated and stale (longer files) directories and
      with other spellings of the same command line;
and every run - calls, exit status, diagnostic, state of each output file
(sha256 against the reference) - must be a behaviour of spec/SbeppcTrace.tla.
Python runs, records and names classes; TLC judges.
"""
import json
import os
import random

import catalogue
import schema as sch
import sbeppcrun as sr
import vlib

INC_MAIN = """<?xml version="1.0" encoding="UTF-8"?>
<sbe:messageSchema xmlns:sbe="http://fixprotocol.io/2016/sbe" xmlns:xi="http://www.w3.org/2001/XInclude"
                   package="inc" id="9" version="1" byteOrder="littleEndian">
    <xi:include href="inc_types.xml"/>
    <types>
        <type name="qty" primitiveType="uint32"/>
        <composite name="price">
            <type name="mantissa" primitiveType="int64"/>
            <type name="exponent" primitiveType="int8" presence="constant">-2</type>
        </composite>
    </types>
    <sbe:message name="order" id="1">
        <field name="id" id="1" type="uint64"/>
        <field name="side" id="2" type="side"/>
        <field name="px" id="3" type="price"/>
        <field name="q" id="4" type="qty"/>
        <group name="legs" id="10">
            <field name="leg" id="11" type="uint16"/>
            <field name="flags" id="12" type="flags"/>
        </group>
        <data name="note" id="20" type="varDataEncoding"/>
    </sbe:message>
    <xi:include href="inc_msgs.xml"/>
</sbe:messageSchema>
"""
INC_TYPES = """<types>
    <composite name="messageHeader">
        <type name="blockLength" primitiveType="uint16"/>
        <type name="templateId" primitiveType="uint16"/>
        <type name="schemaId" primitiveType="uint16"/>
        <type name="version" primitiveType="uint16"/>
    </composite>
    <composite name="groupSizeEncoding">
        <type name="blockLength" primitiveType="uint16"/>
        <type name="numInGroup" primitiveType="uint16"/>
    </composite>
    <composite name="varDataEncoding">
        <type name="length" primitiveType="uint32"/>
        <type name="varData" primitiveType="uint8" length="0"/>
    </composite>
    <enum name="side" encodingType="char">
        <validValue name="buy">B</validValue>
        <validValue name="sell">S</validValue>
    </enum>
    <set name="flags" encodingType="uint8">
        <choice name="ioc">0</choice>
        <choice name="post">3</choice>
    </set>
</types>
"""
INC_MSGS = """<sbe:message xmlns:sbe="http://fixprotocol.io/2016/sbe" name="cancel" id="2">
    <field name="id" id="1" type="uint64"/>
    <field name="side" id="2" type="side"/>
</sbe:message>
"""


DET_ONLY = set()


def inputs():
    """tiny, the view catalogue schema, and one that pulls types and a message
    in through xi:include (sbeppc resolves href against the cwd)."""
    tiny = {"package": "tiny", "id": 1, "version": 0, "byteOrder": "littleEndian",
            "types": [catalogue.header()], "messages": [catalogue.G("m", 1, fields=[catalogue.F("x", 1, "uint32")])]}
    vle = catalogue.view_schemas()[0]
    # a composite that refers to many public types, enums used by many fields: whatever order the generator
    # keeps its dependency / include lists in must not depend on where the schema file lives (determinism only)
    nref = 24
    many_types = [catalogue.header()] + [catalogue.T("t%02d" % i, ("uint8", "int16", "uint32", "int64", "char", "double")[i % 6]) for i in range(nref)]
    many_types += [{"kind": "enum", "name": "e%02d" % i, "enc": "uint8", "values": [{"name": "A", "value": str(i)}]} for i in range(8)]
    many_types.append({"kind": "composite", "name": "wide", "elements": [{"kind": "ref", "name": "r%02d" % i, "type": "t%02d" % i} for i in range(nref)]})
    many = {"package": "manyrefs", "id": 5, "version": 0, "byteOrder": "littleEndian", "types": many_types,
            "messages": [catalogue.G("m", 1, fields=[catalogue.F("w", 1, "wide")] + [catalogue.F("f%02d" % i, 10 + i, "t%02d" % i) for i in range(nref)]
                                     + [catalogue.F("g%02d" % i, 50 + i, "e%02d" % i) for i in range(8)])]}
    global DET_ONLY
    DET_ONLY = {"manyrefs"}
    return [sr.Input("manyrefs", {"manyrefs.xml": sch.to_xml(many)}, "manyrefs.xml"),
            sr.Input("tiny", {"tiny.xml": sch.to_xml(tiny)}, "tiny.xml"),
            sr.Input(vle["package"], {vle["package"] + ".xml": sch.to_xml(vle)}, vle["package"] + ".xml"),
            sr.Input("inc", {"inc.xml": INC_MAIN, "inc_types.xml": INC_TYPES, "inc_msgs.xml": INC_MSGS}, "inc.xml", cwd_free=False)]


# ------------------------------------------------------------ model level ---

MC_BODY = r'''
CONSTANTS MaxD, MaxF, MaxW
DN == <<"d1", "d2", "d3">>
FN == <<"f1", "f2", "f3">>
TN == <<"f1.tmp", "f2.tmp", "f3.tmp">>
Op(c, p, d, n) == [call |-> c, path |-> p, dir |-> d, len |-> n, src |-> ""]
\* style "direct": the file is written in place; "replace": written under a temporary name, closed, renamed
\* into place; "scratch": a scratch file is written and removed again before the file proper is written
FileOps(i, nd, nw, style) ==
  LET name == IF style \in {"replace", "replace+cleanup"} THEN TN[i] ELSE FN[i]
      body == <<Op("open", name, DN[((i - 1) % nd) + 1], 0)>>
              \o [w \in 1 .. nw |-> Op("write", name, "", IF w = 1 THEN 3 ELSE 1)]
              \o <<Op("close", name, "", 0)>>
  IN CASE style = "replace" -> body \o <<[Op("rename", FN[i], "", 0) EXCEPT !.src = TN[i]]>>
       [] style = "replace+cleanup" -> body \o <<[Op("rename", FN[i], "", 0) EXCEPT !.src = TN[i]], Op("unlink", TN[i], "", 0)>>
       [] style = "scratch" -> <<Op("open", TN[i], DN[((i - 1) % nd) + 1], 0), Op("write", TN[i], "", 2), Op("close", TN[i], "", 0),
                                 Op("unlink", TN[i], "", 0)>> \o body
       [] OTHER -> body
RECURSIVE AllFiles(_, _, _, _, _)
AllFiles(i, nf, nd, nw, style) == IF i > nf THEN <<>> ELSE FileOps(i, nd, nw, style) \o AllFiles(i + 1, nf, nd, nw, style)
MkPlan(nd, nf, nw, style) == [d \in 1 .. nd |-> Op("mkdir", DN[d], IF d = 1 THEN "" ELSE DN[1], 0)] \o AllFiles(1, nf, nd, nw, style)
MCPlans == {MkPlan(nd, nf, nw, "direct") : nd \in 1 .. MaxD, nf \in 1 .. MaxF, nw \in 1 .. MaxW}
           \cup {MkPlan(nd, nf, nw, st) : nd \in 1 .. 2, nf \in 1 .. 2, nw \in 1 .. 2, st \in {"replace", "replace+cleanup", "scratch"}}
\* every position (also beyond the end: never reached) and every kind; every input open
MCFaultsOf(p) == {NoFault}
   \cup {[cls |-> "out", k |-> k, kind |-> kd] : k \in 1 .. Len(p) + 2, kd \in Kinds}
   \cup {[cls |-> "in", k |-> k, kind |-> kd] : k \in 1 .. InFiles, kd \in Errnos}
'''
MC_INVS = ("TypeOK", "ExitTruthful", "FaultReported", "ExitOK", "ShortIsNoFailure", "RejectKeepsDisk", "CleanEnd",
           "RerunSame", "OneFault")


def mc_cfg(check_stream, infiles):
    return ("SPECIFICATION Spec\nCONSTANT MaxD = 3\nCONSTANT MaxF = 3\nCONSTANT MaxW = 3\nCONSTANT InFiles = %d\n"
            "CONSTANT CheckStream = %s\nCONSTANT Plans <- MCPlans\nCONSTANT FaultsOf <- MCFaultsOf\n"
            "CONSTANT InitKinds = {\"fresh\", \"populated\", \"stale\"}\n" % (infiles, "TRUE" if check_stream else "FALSE")
            + "".join("INVARIANT %s\n" % i for i in MC_INVS) + "PROPERTY Termination\n")


def model_check(wd, check_stream, infiles=2, workers=6):
    name = "MC_Sbeppc_%s" % ("design" if check_stream else "unchecked")
    d = os.path.join(wd, name)
    vlib.mc(d, name, "Sbeppc", MC_BODY, mc_cfg(check_stream, infiles))
    # deadlock checking ON: the only terminal states are those of `Finished` (phase = Done)
    return vlib.tlc(name, cwd=d, workers=workers, deadlock=True, timeout=800, xmx="6g")


# -------------------------------------------------------------- selection ---

def quick_positions(ref, rnd, budget=60):
    """mkdir/open/write positions: first and last mkdir; open, first and last
    write of the first and of the last file; then a seeded sample."""
    cand = ref.positions(("mkdir", "open", "write", "rename", "unlink"))
    if len(cand) <= budget:
        return cand
    ops = ref.ops
    must = set()
    mk = ref.positions(("mkdir",))
    must.update(mk[:1] + mk[-1:])
    files = []
    for op in ops:
        if op["call"] == "open":
            files.append(op["path"])
    for f in (files[0], files[-1]):
        idx = [i + 1 for i, op in enumerate(ops) if op["path"] == f and op["call"] in ("open", "write")]
        must.update(i + 1 for i, op in enumerate(ops) if op["call"] == "rename" and op["src"] == f)
        opens = [k for k in idx if ops[k - 1]["call"] == "open"]
        writes = [k for k in idx if ops[k - 1]["call"] == "write"]
        must.update(opens[:1] + writes[:1] + writes[-1:])
    rest = [k for k in cand if k not in must]
    rnd.shuffle(rest)
    return sorted(must | set(rest[:max(0, budget - len(must))]))


def fault_jobs(ref, stale_ops, tier, rnd):
    """(tag, fault, init) for one schema."""
    jobs = []
    thorough = tier == "thorough"
    pos = ref.positions(("mkdir", "open", "write", "close", "rename", "unlink")) if thorough else quick_positions(ref, rnd)
    for k in pos:
        call = ref.ops[k - 1]["call"]
        for kind in sr.KINDS:
            if kind == "SHORT" and call != "write":
                continue
            jobs.append((("out", k, kind), "fresh"))
    # input files: open (alarm condition), thorough: read and close as well (recorded)
    nin_calls = len(ref.run.sys_events("in"))
    for k in range(1, nin_calls + 1):
        call = ref.run.sys_events("in")[k - 1]["call"]
        if call == "open" or thorough:
            for kind in sr.ERRNOS:
                jobs.append((("in", k, kind), "fresh"))
    # a directory full of stale, longer files: failed open must leave exit != 0
    spos = [i + 1 for i, op in enumerate(stale_ops) if op["call"] in (("open", "write", "close") if thorough else ("open", "write"))]
    if not thorough:
        rnd.shuffle(spos)
        spos = sorted(spos[:12])
    for k in spos:
        for kind in (sr.KINDS if thorough else ("ENOSPC", "SHORT")):
            if kind == "SHORT" and stale_ops[k - 1]["call"] != "write":
                continue
            jobs.append((("out", k, kind), "stale"))
    return jobs


# --------------------------------------------------------- classification ---

def classify(run, rec):
    """Name the class of a rejected run from what was observed (the rejection
    itself is TLC's). Returns (signature, description)."""
    ev = rec["event"]
    inj = run.injected()
    if run.fault["cls"] == "none":
        head = "rerun"
    else:
        call = inj["call"] if inj else "unreached"
        head = "fault/%s%s/%s" % ("in-" if run.fault["cls"] == "in" else "", call, run.fault["kind"])
        if run.init != "fresh":
            head += "/" + run.init
    disk = run.event("disk") or {"files": []}
    notok = [f for f in disk["files"] if f["state"] != "complete"]
    if ev["ev"] == "exit":
        if ev["signal"] != 0:
            what = "crash(sig=%s)" % ev["signal"] if ev["signal"] > 0 else "timeout"
        elif ev["status"] == 0 and rec["failed"]:
            what = "exit0-incomplete" if notok else "exit0-unreported"
        elif ev["status"] == 0:
            what = "exit0-plan-not-finished"
        elif not rec["diag"]:
            what = "no-diag"
        else:
            what = "exit%d-without-failure" % ev["status"]
    elif ev["ev"] == "disk":
        if run.fault["cls"] == "none":
            bad = [f for f in ev["files"] if f["state"] != "complete"]
            what = "differs/" + (bad[0]["path"] if bad else "?")
        else:
            what = "disk-differs-from-model"
    elif ev["ev"] == "sys":
        # a call that is not the next one of the plan (nothing had failed before it)
        if run.fault["cls"] == "none":
            what = ("differs/" + notok[0]["path"]) if notok else ("call-order/%s" % ev["call"])
        else:
            what = "call-off-plan/%s" % ev["call"]
    elif ev["ev"] == "phase":
        what = "phase-order/%s" % ev["name"]
    else:
        what = "rejected-at-" + ev["ev"]
    desc = ("run %s of schema %s (init=%s, fault=%s) is not a behaviour of Sbeppc: stuck at line %d, event %s; "
            "spec state: phase=%s pc=%s nio=%s failed=%s soft=%s diag=%s; exit status %s signal %s; files not complete: %s; "
            "repeat with ./verif replay <replay file> (re-runs this single case and validates it alone)" % (
                run.id, run.schema, run.init, json.dumps(run.fault), rec["line"], json.dumps(ev)[:300],
                rec["phase"], rec["pc"], rec["nio"], rec["failed"], rec["soft"], rec["diag"], run.status, run.signal,
                [f["path"] + ":" + f["state"] for f in notok][:6]))
    return head + "/" + what, desc


def case_of(run, style="rel"):
    return {"schema": run.schema, "fault": run.fault, "init": run.init, "style": getattr(run, "style", style),
            "command": run.command_line(), "stdout": run.stdout[-600:], "stderr": run.stderr[-600:],
            "events_tail": run.events[-6:]}


# ------------------------------------------------- documented output tree ---

INC_RE = None


def tree_inputs(ins):
    """command-line variants whose documented effect on the tree OutTree.tla states"""
    tiny = [i for i in ins if i.name == "tiny"][0]
    return [sr.Input("tiny+name", tiny.files, tiny.main, extra_args=["--schema-name", "renamed_schema"]),
            sr.Input("tiny+inject", tiny.files, tiny.main, extra_args=["--inject-include", "my/config.hpp"]),
            # (an option given twice is not documented: each once)
            sr.Input("tiny+both", tiny.files, tiny.main,
                     extra_args=["--inject-include", "b/c.hpp", "--schema-name", "n2"])]


def observe_tree(ref, S):
    """names (schema order) and what the run left behind - no expectation is computed here"""
    import re
    global INC_RE
    INC_RE = INC_RE or re.compile(r'^\s*#\s*include\s*"([^"]+)"', re.M)
    args = ref.inp.extra_args
    name = S["package"]
    inject = []
    for a, b in zip(args, args[1:]):
        if a == "--schema-name":
            name = b
        if a == "--inject-include":
            inject.append(b)
    files = sorted(ref.content)
    # (the output directory itself - "." - is the root the documentation speaks of, not part of the tree)
    dirs = sorted(set(op["path"] for op in ref.ops if op["call"] == "mkdir") - {"."})
    top = INC_RE.findall(ref.content.get("%s/%s.hpp" % (name, name), b"").decode("utf-8", "replace"))
    schh = INC_RE.findall(ref.content.get("%s/schema/schema.hpp" % name, b"").decode("utf-8", "replace"))
    return {"id": ref.inp.name, "name": name, "types": [t["name"] for t in S["types"]], "msgs": [m["name"] for m in S["messages"]],
            "inject": inject, "files": set(files), "dirs": set(dirs), "top": top, "sch": schh}


def tla_set(xs):
    return "{" + ", ".join(sch.tla_str(x) for x in sorted(xs)) + "}"


def check_tree(v, wd, observations):
    body = "RunsDef == <<%s>>\n" % ",\n ".join(
        "[id |-> %s, name |-> %s, types |-> %s, msgs |-> %s, inject |-> %s, files |-> %s, dirs |-> %s, top |-> %s, sch |-> %s]" % (
            sch.tla_str(o["id"]), sch.tla_str(o["name"]), sch.tla(o["types"]), sch.tla(o["msgs"]), sch.tla(o["inject"]),
            tla_set(o["files"]), tla_set(o["dirs"]), sch.tla(o["top"]), sch.tla(o["sch"])) for o in observations)
    d = os.path.join(wd, "mc-outtree")
    vlib.mc(d, "MC_OutTree", "OutTree", body,
            "CONSTANT Runs <- RunsDef\nSPECIFICATION Spec\nCONSTRAINT EmitTree\n")
    r = vlib.tlc("MC_OutTree", cwd=d, workers=1, timeout=300, xmx="1g", deadlock=False)
    if not r.ok:
        raise vlib.InfraError("OutTree.tla did not run: %s" % r.raw[-800:])
    recs = [x for x in r.records if x.get("kind") == "outtree"]
    if len(recs) != len(observations):
        raise vlib.InfraError("OutTree.tla judged %d of %d runs" % (len(recs), len(observations)))
    for x in recs:
        for what, key, text in (("missing", "tree/missing-file", "a file the documentation promises was not generated"),
                                ("extra", "tree/undocumented-file", "a file outside the documented tree was generated"),
                                ("dirs_missing", "tree/missing-dir", "a documented directory was not created"),
                                ("dirs_extra", "tree/undocumented-dir", "a directory outside the documented tree was created"),
                                ("top_missing", "tree/top-header-incomplete", "<name>/<name>.hpp does not include it ('contains everything')"),
                                ("top_extra", "tree/top-header-extra", "<name>/<name>.hpp includes something that is no part of the schema")):
            if x[what]:
                v.violation("%s/%s" % (key, x["id"]), "sbeppc exit 0 for %s, but %s: %s (OutTree.tla)" % (x["id"], text, sorted(x[what])[:8]),
                            {"schema": x["id"], what: sorted(x[what])})
        if not x["inject_ok"]:
            v.violation("tree/inject-include/%s" % x["id"], "--inject-include PATH is not the first #include of schema/schema.hpp (OutTree.tla InjectedComesFirst)",
                        {"schema": x["id"]})
    v.part("documented_output_tree", runs=len(recs), files_expected=sum(x["expected"] for x in recs),
           variants=[o["id"] for o in observations])
    return len(recs)


# -------------------------------------------------------------------- run ---

def run(v, tier, seed):
    rnd = random.Random(seed)
    thorough = tier == "thorough"
    wd = vlib.fresh_dir(os.path.join(vlib.WORK, "c20"))
    rdir = os.path.join(wd, "runs")
    sb = vlib.build_sbeppc("plain")
    sr.build_shim()

    # ---- 1. design level: TLC on Sbeppc.tla (in the background of the runs) ----
    from concurrent.futures import ThreadPoolExecutor
    pool = ThreadPoolExecutor(max_workers=2)
    fut_design = pool.submit(model_check, wd, True, 3 if thorough else 2)
    fut_unchecked = pool.submit(model_check, wd, False, 2, 2)

    # ---- 2. reference runs: plan + reference files ----------------------------
    ins = inputs()
    refs = {}
    for inp in ins:
        refs[inp.name] = sr.reference(sb, inp, rdir)
    hooked = any(e["ev"] == "phase" for e in refs[ins[0].name].run.events)

    # ---- 2b. what "every generated file" is: the documented tree (OutTree.tla) --
    import xmlimport
    observations = []
    for inp in ins + tree_inputs(ins):
        ind = vlib.fresh_dir(os.path.join(wd, "tree-in", inp.name))
        for fn, text in inp.files.items():
            vlib.write(os.path.join(ind, fn), text)
        S = xmlimport.load(os.path.join(ind, inp.main))
        ref = refs[inp.name] if inp.name in refs else sr.reference(sb, inp, rdir)
        observations.append(observe_tree(ref, S))
    n_tree = check_tree(v, wd, observations)
    all_runs = {}
    n_exec = len(ins)

    def do(job):
        inp, rid, kw = job
        r = sr.run_sbeppc(sb, inp, rdir, rid, ref=refs[inp.name], **kw)
        r.style = kw.get("style", "rel")
        return r

    # ---- 3. determinism: same schema again, fresh / populated / stale, other spellings
    det_jobs = []
    for inp in ins:
        for i, (init, style) in enumerate([("fresh", "rel"), ("fresh", "rel"), ("populated", "rel"), ("stale", "rel"),
                                            ("fresh", "abs"), ("fresh", "dotted"), ("fresh", "parent"),
                                            ("populated", "abs"), ("stale", "dotted"), ("populated", "parent")]):
            det_jobs.append((inp, "det-%s-%d-%s-%s" % (inp.name, i, init, style), {"init": init, "style": style}))
    det_runs = vlib.parallel(det_jobs, do)
    n_exec += len(det_runs)
    # the op sequence of a stale/populated directory (no mkdir): positions for the stale fault runs
    stale_ops = {}
    for r in det_runs:
        if r.init == "stale" and r.schema not in stale_ops:
            stale_ops[r.schema] = [{"call": e["call"], "path": e["path"]} for e in r.sys_events("out")]

    # ---- 4. fault enumeration ---------------------------------------------------
    fjobs = []
    for inp in ins:
        if inp.name in DET_ONLY:
            continue
        for n, (fault, init) in enumerate(fault_jobs(refs[inp.name], stale_ops.get(inp.name, []), tier, rnd)):
            fjobs.append((inp, "f-%s-%s-%d-%s-%s" % (inp.name, fault[0], fault[1], fault[2], init), {"fault": fault, "init": init}))
    fruns = vlib.parallel(fjobs, do)
    n_exec += len(fruns)

    # ---- 5. validation by TLC, in batches ---------------------------------------
    batches = []
    batches.append(("ref+det", [refs[i.name].run for i in ins] + det_runs))
    for i, chunk in enumerate(vlib.chunks(fruns, 70)):
        batches.append(("faults%d" % i, chunk))
    for _, b in batches:
        for r in b:
            all_runs[r.id] = r

    def validate(batch):
        tag, runs = batch
        return sr.validate_runs(v, runs, refs, wd, tag="tv-" + tag)
    results = vlib.parallel(batches, validate, nproc=min(12, vlib.NCPU))
    tv_states = sum(r.distinct for _, r in results)
    rejected = []
    for rej, _ in results:
        rejected += rej

    # ---- 6. name the rejected runs; confirm one of each class in isolation -----
    classes = {}
    for rec in rejected:
        run_ = all_runs[rec["rejected"]]
        sig, desc = classify(run_, rec)
        classes.setdefault(sig, []).append((run_, rec, desc))
    confirm = [(sig, lst[0][0]) for sig, lst in sorted(classes.items())]

    def alone(job):
        sig, run_ = job
        rej, _ = sr.validate_runs(v, [run_], refs, wd, tag="tv-alone-" + run_.id)
        return sig, run_, rej
    for sig, run_, rej in vlib.parallel(confirm, alone, nproc=min(12, vlib.NCPU)):
        if not rej:
            raise vlib.InfraError("run %s was rejected inside its batch but accepted alone" % run_.id)
    for sig, lst in sorted(classes.items()):
        for run_, rec, desc in lst:
            v.violation(sig, desc, case_of(run_))

    # ---- 7. the model itself ------------------------------------------------------
    md = fut_design.result()
    mu = fut_unchecked.result()
    pool.shutdown()
    if not md.ok:
        v.violation("spec/design", "Sbeppc.tla (design with the stream check) violates %s:\n%s" % (md.violated, md.raw[-1500:]))
    if mu.ok or mu.violated not in ("ExitTruthful", "FaultReported", "ExitOK"):
        raise vlib.InfraError("Sbeppc.tla with CheckStream = FALSE (write errors ignored) was expected to violate "
                              "ExitTruthful/FaultReported; TLC says exit=%s violated=%s - the invariants do not bite" % (mu.exit, mu.violated))
    v.part("tlc_design", distinct_states=md.distinct, generated=md.generated, depth=md.depth, wall_s=round(md.wall, 1),
           invariants=list(MC_INVS) + ["Termination", "no deadlock outside Done"])
    v.part("tlc_design_without_stream_check", violated=mu.violated, wall_s=round(mu.wall, 1))

    # ---- 8. evidence ------------------------------------------------------------
    injected = set()
    not_reached = 0
    by_call = {}
    for r in fruns:
        e = r.injected()
        if e is None:
            not_reached += 1
            continue
        injected.add((r.schema, r.fault["cls"], r.fault["k"], r.fault["kind"], r.init))
        key = "%s/%s/%s" % (r.fault["cls"], e["call"], r.fault["kind"])
        by_call[key] = by_call.get(key, 0) + 1
    close_runs = [r for r in fruns if (r.injected() or {}).get("call") == "close" and r.fault["cls"] == "out"]
    v.part("plans", **{n: {"out_calls": len(refs[n].ops), "files": len(refs[n].files), "input_files": refs[n].nin} for n in refs})
    v.part("fault_runs", total=len(fruns), injected=len(injected), fault_position_not_reached=not_reached, by_call_kind=by_call,
           close_faults_recorded=len(close_runs),
           close_faults_exit_nonzero=sum(1 for r in close_runs if r.status != 0))
    v.part("determinism_runs", total=len(det_runs))
    v.part("trace_validation", batches=len(batches), lines=sum(len(r.events) for r in all_runs.values()), tlc_states=tv_states,
           rejected_runs=len(rejected), classes={s: len(l) for s, l in classes.items()}, phase_hook_present=hooked)
    smp = []
    for r in fruns[:1] + fruns[len(fruns) // 2:len(fruns) // 2 + 1] + det_runs[2:3]:
        smp.append({"run": r.id, "fault": r.fault, "init": r.init, "exit": r.status, "signal": r.signal,
                    "injected_call": r.injected(), "diag": r.event("diag"),
                    "files_not_complete": [f for f in (r.event("disk") or {"files": []})["files"] if f["state"] != "complete"][:4]})
    v.add(states=md.distinct + tv_states, transitions=md.generated, evaluations=n_exec + len(confirm),
          distinct_nontrivial=len(injected), traces_validated_against_impl=len(all_runs),
          rule="one evaluation = one execution of the real sbeppc binary under the shim; distinct non-trivial = distinct "
               "(schema, class, k, kind, initial directory) whose fault was observed to strike (shim logged inj != \"\"); "
               "%s; every run validated by TLC against SbeppcTrace with the plan of the fault-free run" % (
                   "every output call k (mkdir/open/write/close) x ENOSPC/EACCES/EIO(/SHORT for writes), every input call, fresh and stale directories"
                   if thorough else
                   "all mkdir/open/write positions of the small schemas, a seeded sample of 60 for the large one (first/last mkdir, "
                   "open/first/last write of first and last file always), every input open, 12 positions on a stale directory"),
          samples=smp, exhaustive=bool(thorough))
    v.assumptions += ["the shim sees every way sbeppc touches the output directory (libstdc++ filebuf: fopen/write/writev/fclose; "
                      "std::filesystem: mkdir) - direct syscalls or io_uring would bypass it",
                      "one fault per run; a fault is transient (only the k-th call fails)",
                      "'complete' = same size and sha256 as the file written by the fault-free run of the same binary",
                      "close/read failures are injected and recorded but, as in the property text, are not alarm conditions"]
    return v.finish("fault_enumeration",
                    "TLC: Sbeppc.tla over all plans <=3 dirs x <=3 files x <=3 writes, all fault positions/kinds, 3 initial disks, re-run; "
                    "real binary: fault enumeration validated run by run against SbeppcTrace.tla")


def replay(rp):
    """Re-execute the single run of a recorded violation and validate it alone."""
    case = rp.get("case") or {}
    print(json.dumps({k: case.get(k) for k in ("schema", "fault", "init", "style", "command")}, indent=1))
    inp = [i for i in inputs() if i.name == case.get("schema")]
    if not inp:
        print("no such schema")
        return 2
    wd = vlib.fresh_dir(os.path.join(vlib.WORK, "c20-replay"))
    sb = vlib.build_sbeppc("plain")
    ref = sr.reference(sb, inp[0], wd)
    f = case["fault"]
    r = sr.run_sbeppc(sb, inp[0], wd, "replay", ref=ref, fault=None if f["cls"] == "none" else (f["cls"], f["k"], f["kind"]),
                      init=case["init"], style=case.get("style", "rel"), keep=True)
    print("by hand: " + r.command_line())
    print("exit status %s signal %s\nstdout: %s\nstderr: %s" % (r.status, r.signal, r.stdout[-800:], r.stderr[-800:]))
    for e in r.events[-5:]:
        print(json.dumps(e)[:400])
    rej, _ = sr.validate_runs(None, [ref.run, r], {inp[0].name: ref}, wd)
    for x in rej:
        print("REJECTED by SbeppcTrace:", json.dumps(x)[:600])
    print("accepted" if not rej else "rejected")
    return 1 if rej else 0
