"""C08 - sbeppc rejects exactly the schemas that break its layout rules.

spec/Rules.tla defines Valid(S) as a conjunction of named rules (independent of
sbeppc); spec/SchemaGen.tla derives from every valid base schema all schemas
obtained by one Break(rule, position) / Boundary(rule, position) edit and
records TLC's verdict (Rules!Valid on the mutated record) in every state.  TLC
checks on the spec itself: every Break state violates the named rule (exactly
that rule where the generator claims so), every Boundary state is valid, the
two definitions of validity agree, and Valid => NoOverlap /\\ MembersInsideBlock.

Binding: every emitted state (full mutated schema + verdict) is transliterated
to XML and run through the real sbeppc.  Alarms (only these): verdict reject
but exit 0; verdict accept but exit != 0; reject without a located diagnostic;
crash / signal / hang; files left behind on rejection.

Python computes no expectation: the verdict is a field of the TLC record.
"""
import json
import os
import re
import shutil
import time

import catalogue
import rulesgen
import schema as sch
import vlib
from vlib import mc, tlc

ALL_GROUPS = ["offset", "range", "value", "ref", "kind", "name", "keyword", "unique", "probe", "grid", "files"]

BAD_NAMES = ["9lives", "a-b", "a.b", "a b", "", "x$", "a:b", "-x"]
GOOD_NAMES = ["_Zq9", "a__b", "Class", "x_", "INT", "new_", "F00", "_"]
KEYWORDS_ALL = [
    "alignas", "alignof", "and", "and_eq", "asm", "auto", "bitand", "bitor", "bool", "break", "case", "catch",
    "char", "char8_t", "char16_t", "char32_t", "class", "compl", "concept", "const", "consteval", "constexpr",
    "constinit", "const_cast", "continue", "co_await", "co_return", "co_yield", "decltype", "default", "delete",
    "do", "double", "dynamic_cast", "else", "enum", "explicit", "export", "extern", "false", "float", "for",
    "friend", "goto", "if", "inline", "int", "long", "mutable", "namespace", "new", "noexcept", "not", "not_eq",
    "nullptr", "operator", "or", "or_eq", "private", "protected", "public", "register", "reinterpret_cast",
    "requires", "return", "short", "signed", "sizeof", "static", "static_assert", "static_cast", "struct",
    "switch", "template", "this", "thread_local", "throw", "true", "try", "typedef", "typeid", "typename",
    "union", "unsigned", "using", "virtual", "void", "volatile", "wchar_t", "while", "xor", "xor_eq"]
# (the pools are scope: WHICH names are tried.  Whether a name is acceptable is
# decided by Rules.tla - R_Name / R_Keyword - on the mutated record; TLC's
# invariants fail if a "bad" name is valid or a "good" one is not.)

INVARIANTS = ["BaseIsValid", "BreakBreaksNamedRule", "BreakBreaksExactlyOne", "BoundaryStaysValid",
              "ValidIsNoBrokenRule", "LayoutTheorem", "OffsetBreakOverlaps", "BlockBreakEscapes", "GridCharacterisation",
              "PlansWellFormed", "SplitKeepsVerdict"]

ANSI = re.compile(r"\x1b\[[0-9;]*m")


def bases(tier):
    hs = catalogue.header_schemas()
    pick = hs if tier == "thorough" else [h for h in hs if h["package"] in ("h_reorder_be", "h_gaps", "h_refs")]
    out = [("rules", rulesgen.rules_schema())]
    out += [(S["package"], S) for S in catalogue.view_schemas()]
    out += [(S["package"], S) for S in pick]
    return out


def tla_seq(xs):
    return "<<" + ", ".join(sch.tla_str(x) for x in xs) + ">>"


def knobs(tier, name):
    # complete offset grids (every assignment) on the small member lists of the `rules` base only
    grid = {}
    if name == "rules":
        grid = dict(go=[-1, 0, 1, 2, 3, 4, 6, 7, 8], gb=[-1, 0, 3, 6, 7, 8, 12]) if tier == "thorough" else dict(go=[-1, 0, 1, 3, 4, 7], gb=[-1, 6, 7, 11])
    if tier == "thorough":
        return dict(bad=BAD_NAMES, good=GOOD_NAMES, kw=KEYWORDS_ALL, per=12, retarget=6, **grid)
    # quick: every entity gets one name of each pool (rotating through the pools)
    kw = ["class", "new", "int", "while", "char", "union", "xor", "typename", "double", "default", "and", "this"]
    if name == "vbe":   # same shapes as vle, other byte order: the layout groups only
        return dict(bad=BAD_NAMES[:1], good=GOOD_NAMES[:1], kw=kw[:1], per=1, retarget=1,
                    groups=["offset", "range", "value", "kind"])
    return dict(bad=BAD_NAMES, good=GOOD_NAMES, kw=kw, per=1, retarget=2, **grid)


def tlc_base(job):
    name, S, tier, wd, workers, root = job
    N = rulesgen.normalize(S)
    light = []          # per state: everything but the schema, which goes to <dir>/in.xml at once
    errors = []

    def on_record(rec):
        try:
            # transliteration self-check: the emitted schema is Base with the emitted edits applied
            if rulesgen.apply_edits(N, rec["edits"]) != rec["schema"]:
                raise vlib.InfraError("edits and emitted schema disagree (base %s, %s %s %s)" % (name, rec["kind"], rec["rule"], rec["pos"]))
            D = rulesgen.denormalize(rec.pop("schema"))
            xml = sch.to_xml(D)
            d = os.path.join(root, name, "%05d" % len(light))
            os.makedirs(d)
            with open(os.path.join(d, "in.xml"), "w") as f:
                f.write(xml)
            # the same schema distributed over files (Files.tla plans): one directory per plan
            plans = rec.pop("plans", [])
            rec["plans"] = [pl["name"] for pl in plans]
            for pl in plans:
                pd = os.path.join(d, "files-" + pl["name"])
                os.makedirs(pd)
                for fn, txt in sch.to_xml_files(D, pl["tree"]).items():
                    with open(os.path.join(pd, fn), "w") as f:
                        f.write(txt)
            rec["dir"] = d
            rec["xml_sha"] = vlib.sha(xml)
            light.append(rec)
        except Exception as ex:      # reported after TLC has finished
            errors.append(ex)
    k = knobs(tier, name)
    groups = k.get("groups", ALL_GROUPS)
    ints = lambda xs: "<<" + ", ".join(str(x) for x in xs) + ">>"
    body = ("BaseDef == %s\nBadDef == %s\nKwDef == %s\nGoodDef == %s\nGroupsDef == {%s}\nGridOffsetsDef == %s\nGridBlocksDef == %s\n" % (
        rulesgen.schema_tla(S), tla_seq(k["bad"]), tla_seq(k["kw"]), tla_seq(k["good"]),
        ", ".join(sch.tla_str(g) for g in groups), ints(k.get("go", [])), ints(k.get("gb", []))))
    cfg = ("CONSTANTS\n Base <- BaseDef\n BadNames <- BadDef\n Keywords <- KwDef\n GoodNames <- GoodDef\n"
           " NamesPerEntity = %d\n RetargetMax = %d\n Groups <- GroupsDef\n GridOffsets <- GridOffsetsDef\n GridBlocks <- GridBlocksDef\n"
           " Slices = %d\nINIT Init\nNEXT Next\nCONSTRAINT Emit\n" % (k["per"], k["retarget"], 4 * workers))
    cfg += "".join("INVARIANT %s\n" % i for i in INVARIANTS)
    d = os.path.join(wd, "mc_" + name)
    mc(d, "MC_SchemaGen", "SchemaGen", body, cfg)
    # development aid (mutation demos re-run the same model against differently patched sbeppc
    # builds): VERIF_C08_TLC_CACHE=1 re-uses the TLC result of an identical model.  Off by default.
    ck = None
    if os.environ.get("VERIF_C08_TLC_CACHE") == "1":
        srcs = [os.path.join(vlib.SPEC, f) for f in ("Sbe.tla", "Rules.tla", "SchemaGen.tla")]
        ck = os.path.join(vlib.ensure_dir(os.path.join(vlib.CACHE, "c08")), vlib.sha(body, cfg, vlib.file_hash(srcs)) + ".json")
        if os.path.exists(ck):
            c = json.load(open(ck))
            r = vlib.TLCResult()
            r.exit, r.generated, r.distinct, r.wall, r.violated = 0, c["generated"], c["distinct"], 0.0, None
            for rec in c["records"]:
                on_record(rec)
            if errors:
                raise errors[0]
            return name, r, light
        keep = []
        r = tlc("MC_SchemaGen", cwd=d, workers=workers, xmx="6g", timeout=2400, on_record=lambda rec: (keep.append(json.loads(json.dumps(rec))), on_record(rec)))
        if r.ok:
            vlib.write(ck, json.dumps({"records": keep, "generated": r.generated, "distinct": r.distinct}))
    else:
        r = tlc("MC_SchemaGen", cwd=d, workers=workers, xmx="6g", timeout=2400, on_record=on_record)
    if errors:
        raise errors[0]
    return name, r, light


# ------------------------------------------------------------ observation --

class Obs:
    __slots__ = ("rc", "out", "located", "loc_in_file", "has_error_line", "left", "crash", "hang", "wall")


def observe(sbeppc, xml_path, out_dir, cwd=None, arg=None, schema_name=None, files=None):
    """Run the real sbeppc; report exit status, diagnostics, files written.
    files: names (relative to cwd) of all files of a distributed schema - the
    diagnostic may point into any of them."""
    t0 = time.time()
    opts = ["--schema-name", schema_name] if schema_name else []
    p = vlib.run([sbeppc, "--output-dir", out_dir] + opts + [arg or xml_path], timeout=120, cwd=cwd)
    o = Obs()
    o.wall = time.time() - t0
    o.rc = p.returncode
    o.hang = p.returncode == -999
    o.crash = (p.returncode < 0 and not o.hang) or p.returncode >= 126
    text = ANSI.sub("", (p.stdout or "") + "\n" + (p.stderr or ""))
    o.out = text.strip()
    base = "(" + "|".join(re.escape(f) for f in (files or [arg or xml_path])) + ")"
    m = re.search(r"^Error: " + base + r":(\d+):(\d+): \S", text, re.M)
    o.has_error_line = re.search(r"^Error: \S", text, re.M) is not None
    o.located = m is not None
    o.loc_in_file = False
    if m:
        try:
            hit = m.group(1) if files else xml_path
            full = hit if os.path.isabs(hit) else os.path.join(cwd or ".", hit)
            lines = open(full, errors="replace").read().split("\n")
            ln, col = int(m.group(2)), int(m.group(3))
            o.loc_in_file = 1 <= ln <= len(lines) and 1 <= col <= len(lines[ln - 1]) + 1
        except OSError:
            pass
    left = []
    if os.path.isdir(out_dir):
        for dp, dn, fs in os.walk(out_dir):
            for f in fs:
                left.append(os.path.relpath(os.path.join(dp, f), out_dir))
            if dp != out_dir and not fs and not dn:
                left.append(os.path.relpath(dp, out_dir) + "/")
    o.left = sorted(left)
    return o


def outcome_alarm(verdict, o):
    """The alarm conditions of C08 (nothing else is an alarm)."""
    if o.crash:
        return "crash"
    if o.hang:
        return "hang"
    if verdict == "unspecified":       # a probe: either exit status; a rejection must still be a proper one
        if o.rc != 0 and not (o.located and o.loc_in_file):
            return "unlocated"
        if o.rc != 0 and o.left:
            return "leftover"
        return None
    if verdict == "reject":
        if o.rc == 0:
            return "accepted"
        if not (o.located and o.loc_in_file):
            return "unlocated"
        if o.left:
            return "leftover"
    else:
        if o.rc != 0:
            return "rejected"
    return None


def sig_of(rec, alarm):
    parts = [rec["kind"]]
    if rec["kind"] == "grid":        # the variant is the whole offset assignment: not part of the class
        parts += [rec["rule"], rec["pos"]]
    elif rec["kind"] != "base":
        parts += [rec["rule"], rec["pos"], rec["variant"]]
    return "/".join(parts + [alarm])


# names-the-rule heuristic: recorded in the evidence only
RULE_WORDS = {
    "R_FieldOffset": "offset", "R_ElementOffset": "offset", "R_BlockLength": "blockLength",
    "R_ValueFits": "cannot be represented|constant length|doesn't represent", "R_ChoiceIndex": "choice index|choice_index_t",
    "R_RefExists": "doesn't exist|not a valid primitive", "R_RefKind": "is not a|must be|must have|must refer|doesn't have|cannot be a constant|not a valid `valueRef`",
    "R_NoCycle": "cyclic", "R_ArraySingleByte": "single-byte", "R_Name": "not a valid SBE name|is empty|not a valid C\\+\\+ namespace",
    "R_Keyword": "not a valid C\\+\\+ name", "R_Unique": "already exists|duplicate"}


def names_rule(rule, text):
    w = RULE_WORDS.get(rule.split(".")[0])
    return bool(w and re.search(w, text))


def run_mutant(job):
    idx, base, rec, sbeppc = job
    d = rec["dir"]
    xp = os.path.join(d, "in.xml")
    o = observe(sbeppc, xp, os.path.join(d, "out"))
    alarm = outcome_alarm(rec["verdict"], o)
    if alarm in ("crash", "hang", "accepted", "rejected"):   # repeat once: must be reproducible
        shutil.rmtree(os.path.join(d, "out"), ignore_errors=True)
        o2 = observe(sbeppc, xp, os.path.join(d, "out"))
        if outcome_alarm(rec["verdict"], o2) != alarm:
            alarm = "flaky:" + alarm
    xml = vlib.read(xp) if alarm else None
    # the same schema distributed over files: same verdict, same alarm conditions
    split = []
    for pn in rec.get("plans", []):
        pd = os.path.join(d, "files-" + pn)
        fs = sorted(os.listdir(pd), key=lambda f: (f != "in.xml", f))
        po = observe(sbeppc, "in.xml", os.path.join(pd, "out"), cwd=pd, arg="in.xml", files=fs)
        pa = outcome_alarm(rec["verdict"], po)
        if pa in ("crash", "hang", "accepted", "rejected"):
            shutil.rmtree(os.path.join(pd, "out"), ignore_errors=True)
            if outcome_alarm(rec["verdict"], observe(sbeppc, "in.xml", os.path.join(pd, "out"), cwd=pd, arg="in.xml", files=fs)) != pa:
                pa = "flaky:" + pa
        split.append((pn, pa, po, {f: vlib.read(os.path.join(pd, f)) for f in fs} if pa else None))
    if alarm is None and not any(pa for _, pa, _, _ in split):
        shutil.rmtree(d, ignore_errors=True)
    return idx, base, alarm, o, xml, split


# ----------------------------------------------------------------- corpus --

def corpus(v, sbeppc, wd):
    """The repository's own schemas through the same observation code (a
    cross-check of the harnessing, not of the spec)."""
    repo = vlib.REPO
    jobs = []
    for sub in ("sbe_checker_errors", "cpp_validator_errors", "schema_parser_errors"):
        d = os.path.join(repo, "test", "sbeppc_errors", sub)
        for f in sorted(os.listdir(d)):
            if f.endswith(".xml"):
                jobs.append(("reject", sub, d, f))
    for sub in ("schemas", "naming_test"):
        d = os.path.join(repo, "test", sub)
        for f in sorted(os.listdir(d)):
            if f.endswith(".xml"):
                jobs.append(("accept", sub, d, f))
    root = vlib.fresh_dir(os.path.join(wd, "corpus"))

    def one(j):
        exp, sub, d, f = j
        out = os.path.join(root, sub + "-" + f[:-4])
        # as the repository's tests run them: cwd = the schema's directory (includes are
        # relative); the accepted schemas are compiled with --schema-name <file stem>
        return j, observe(sbeppc, f, out, cwd=d, arg=f, schema_name=f[:-4] if exp == "accept" else None)
    n = {"reject": 0, "accept": 0}
    for (exp, sub, d, f), o in vlib.parallel(jobs, one):
        n[exp] += 1
        bad = None
        if o.crash or o.hang:
            bad = "crash"
        elif exp == "reject" and o.rc == 0:
            bad = "accepted"
        elif exp == "reject" and not o.has_error_line:
            bad = "no-diagnostic"
        elif exp == "reject" and o.left:
            bad = "leftover"
        elif exp == "accept" and o.rc != 0:
            bad = "rejected"
        if bad:
            v.violation("corpus/%s/%s/%s" % (sub, f[:-4], bad),
                        "repository schema test/%s/%s: expected %s; exit %s, files left %s, output: %s" % (
                            ("sbeppc_errors/" if exp == "reject" else "") + sub, f, exp, o.rc, o.left[:5], o.out[:400]),
                        {"corpus": os.path.join(d, f), "expected": exp})
    shutil.rmtree(root, ignore_errors=True)
    return n


# ------------------------------------------------------------------- main --

def run(v, tier, seed):
    thorough = tier == "thorough"
    wd = vlib.fresh_dir(os.environ.get("VERIF_C08_WD") or os.path.join(vlib.WORK, "c08"))
    sbeppc = vlib.build_sbeppc("plain")
    bs = bases(tier)

    # ---- 0. the base schemas are accepted by sbeppc at all (else nothing below means anything)
    # (they are also the `base` states of the model, judged like every other state)

    # ---- 1. TLC: generate every mutant with its verdict, check the generator and the design theorem
    nb = len(bs)
    workers = max(1, min(8, vlib.NCPU // min(nb, 4)))
    # the `rules` base carries the offset grids: it is the largest model by far
    root = vlib.fresh_dir(os.path.join(wd, "run"))
    jobs = [(name, S, tier, wd, 2 * workers if (name == "rules" and thorough) else workers, root) for name, S in bs]
    t0 = time.time()
    results = vlib.parallel(jobs, tlc_base, nproc=max(1, vlib.NCPU // workers))
    states = trans = 0
    recs = []
    for name, r, light in results:
        states += r.distinct
        trans += r.generated
        v.part("tlc_" + name, distinct_states=r.distinct, generated=r.generated, records=len(light), wall_s=round(r.wall, 1))
        if not r.ok:
            v.violation("spec/%s/%s" % (name, r.violated), "SchemaGen/Rules violate %s on base %s in the model itself:\n%s" % (
                r.violated, name, r.raw[-2500:]))
        recs += [(name, rec) for rec in light]
    v.part("tlc", wall_s=round(time.time() - t0, 1), bases=[n for n, _ in bs])

    # ---- 2. every state through the real sbeppc
    t1 = time.time()
    mjobs = [(i, name, rec, sbeppc) for i, (name, rec) in enumerate(recs)]
    per_rule = {}
    probes = {}
    msgs = {}
    named = 0
    rejects = accepts = 0
    distinct = set()
    samples = []
    nsplit = 0
    split_by_plan = {}
    for idx, base, alarm, o, xml, split in vlib.parallel(mjobs, run_mutant):
        rec = recs[idx][1]
        for pn, pa, po, pfiles in split:
            nsplit += 1
            pc = split_by_plan.setdefault(pn, {"n": 0, "alarms": 0, "rejected_in_included_file": 0})
            pc["n"] += 1
            if po.rc != 0 and re.search(r"^Error: inc\d+\.xml:", po.out, re.M):
                pc["rejected_in_included_file"] += 1
            if pa:
                pc["alarms"] += 1
                v.violation(sig_of(rec, pa) + "/files=" + pn,
                            "[base %s] %s %s at %s (%s), schema distributed over files as plan `%s`: spec verdict %s (broken %s) but sbeppc exit %s: %s" % (
                                base, rec["kind"], rec["rule"], rec["pos"], rec["variant"], pn, rec["verdict"], rec["broken"], po.rc, po.out[:500]),
                            {"base": base, "kind": rec["kind"], "rule": rec["rule"], "pos": rec["pos"], "variant": rec["variant"],
                             "edits": rec["edits"], "verdict": rec["verdict"], "broken": rec["broken"], "alarm": pa, "plan": pn,
                             "files": pfiles, "observed": {"rc": po.rc, "out": po.out[:2000], "left": po.left[:20]}})
        key = "%s %s" % (rec["kind"], rec["rule"] or "-")
        c = per_rule.setdefault(key, {"n": 0, "alarms": 0, "diagnostic_names_rule": 0})
        c["n"] += 1
        distinct.add(rec["xml_sha"])
        if rec["verdict"] == "unspecified":
            pk = "%s %s" % (rec["pos"], rec["variant"])
            pr = probes.setdefault(pk, {"accepted": 0, "rejected": 0, "says": ""})
            pr["accepted" if o.rc == 0 else "rejected"] += 1
            if o.rc != 0 and not pr["says"]:
                err = [l for l in o.out.split("\n") if l.startswith("Error: ")] or [o.out.split("\n")[0]]
                pr["says"] = re.sub(r"^Error: \S+?:\d+:\d+: ", "", err[0])[:120]
        elif rec["verdict"] == "reject":
            rejects += 1
            if o.rc != 0 and names_rule(rec["rule"], o.out):
                c["diagnostic_names_rule"] += 1
                named += 1
            if o.rc != 0 and rec["kind"] == "break":
                first = ([l for l in o.out.split("\n") if l.startswith("Error: ")] or [o.out.split("\n")[0]])[0]
                first = re.sub(r"^Error: \S+?:\d+:\d+: ", "", first)
                msgs.setdefault(rec["rule"], {}).setdefault(re.sub(r"`[^`]*`|\([^)]*\)", "_", first)[:90], 0)
                msgs[rec["rule"]][re.sub(r"`[^`]*`|\([^)]*\)", "_", first)[:90]] += 1
        else:
            accepts += 1
        if len(samples) < 6 and rec["kind"] != "base" and idx % 997 == 3:
            samples.append({"base": base, "kind": rec["kind"], "rule": rec["rule"], "position": rec["pos"], "variant": rec["variant"],
                            "edits": rec["edits"], "verdict": rec["verdict"], "broken": rec["broken"],
                            "sbeppc_exit": o.rc, "sbeppc_says": o.out[:200]})
        if alarm:
            c["alarms"] += 1
            what = {"accepted": "the spec rejects this schema (rule %s broken) but sbeppc exits 0" % rec["broken"],
                    "rejected": "the spec accepts this schema but sbeppc exits %s" % o.rc,
                    "unlocated": "rejected (exit %s) without a diagnostic carrying a location inside the input file" % o.rc,
                    "leftover": "rejected (exit %s) but files were left in the output directory: %s" % (o.rc, o.left[:6]),
                    "crash": "sbeppc crashed (wait status %s)" % o.rc, "hang": "sbeppc did not terminate within 120 s"}.get(
                        alarm.replace("flaky:", ""), alarm)
            desc = "[base %s] %s %s at %s (%s), edits %s: %s\n  sbeppc: %s" % (
                base, rec["kind"], rec["rule"], rec["pos"], rec["variant"], json.dumps(rec["edits"])[:300], what, o.out[:500])
            v.violation(sig_of(rec, alarm), desc,
                        {"base": base, "kind": rec["kind"], "rule": rec["rule"], "pos": rec["pos"], "variant": rec["variant"],
                         "edits": rec["edits"], "verdict": rec["verdict"], "broken": rec["broken"], "alarm": alarm,
                         "xml": xml, "observed": {"rc": o.rc, "out": o.out[:2000], "left": o.left[:20]}})
    v.part("sbeppc_runs", n=len(mjobs), wall_s=round(time.time() - t1, 1), expected_reject=rejects, expected_accept=accepts,
           rejects_whose_diagnostic_names_the_rule=named)
    v.part("distributed_over_files", runs=nsplit, per_plan=split_by_plan)
    v.part("per_rule", **per_rule)
    v.part("probes_rule_list_is_silent", **probes)
    v.part("diagnostics_seen", **{r: sorted(m.items(), key=lambda kv: -kv[1])[:6] for r, m in sorted(msgs.items())})
    shutil.rmtree(root, ignore_errors=True) if not v.violations else None

    # ---- 3. the repository's own corpus through the same observation code
    n = corpus(v, sbeppc, wd)
    v.part("corpus", expected_reject=n["reject"], expected_accept=n["accept"])

    # ---- 4. valid schemas nobody wrote by hand: built by spec/SchemaBuild.tla in TLC simulation, valid by
    # Rules.tla (FinishedIsValid) - sbeppc has to accept every one of them
    import schemabuild
    gen = schemabuild.generated_schemas(10 if thorough else 3, seed)
    ngen_ok = 0
    for S in gen:
        try:
            vlib.gen_headers(sch.to_xml(S), S["package"], sbeppc)
            ngen_ok += 1
        except vlib.SbeppcRejected as ex:
            v.violation("accept/generated/" + S["package"],
                        "sbeppc rejects a schema that Rules.tla judges valid (built by SchemaBuild.tla):\n" + ex.out[-800:],
                        {"xml": sch.to_xml(S), "sbeppc_output": ex.out[-2000:]})
    v.part("generated_valid_schemas", accepted=ngen_ok, of=len(gen))

    if not samples and recs:
        rec = recs[min(3, len(recs) - 1)][1]
        samples.append({"kind": rec["kind"], "rule": rec["rule"], "position": rec["pos"], "edits": rec["edits"], "verdict": rec["verdict"]})
    v.add(states=states, transitions=trans, evaluations=len(mjobs) + nsplit + n["reject"] + n["accept"],
          distinct_nontrivial=len(distinct), traces_validated_against_impl=len(mjobs),
          rule="one TLC state = one schema obtained from a valid base schema by one Break/Boundary edit at one position "
               "(plus the unedited bases), emitted with Rules!Valid's verdict and run through sbeppc; "
               "distinct = distinct XML texts; every one differs from its base in the edited attribute(s)",
          samples=samples, exhaustive=False)
    v.assumptions += [
        "scope: base schemas = tools/rulesgen.py:rules_schema, catalogue.view_schemas, %s of catalogue.header_schemas; one edit per mutant" % (
            "all" if thorough else "3"),
        "type references are written in the exact case of the definition (sbeppc resolves them case-insensitively; the spec does not generate case variants of references)",
        "floating-point lexemes between the 17-digit truncation of the largest finite value and the exact value, lexemes that only underflow, "
        "a leading '+', and range attributes of char types are not generated (unspecified in the rules)",
        "nullValue is judged only on optional scalar types, minValue/maxValue only on scalar non-constant types",
        "TLC and the transliteration JSON -> XML (tools/schema.py) are trusted; sbeppc is the plain build of the working tree"]
    return v.finish("model_checking",
                    "BreakBreaksNamedRule / BreakBreaksExactlyOne / BoundaryStaysValid / ValidIsNoBrokenRule / LayoutTheorem model-checked on "
                    "every generated state; every state replayed through the real sbeppc (exit status, located diagnostic, output directory)")


def replay(rp):
    case = rp.get("case") or {}
    print(json.dumps({k: v for k, v in rp.items() if k != "case"}, indent=1))
    sbeppc = vlib.build_sbeppc("plain")
    d = vlib.fresh_dir(os.path.join(vlib.WORK, "c08-replay"))
    if "xml" in case:
        xp = os.path.join(d, "in.xml")
        vlib.write(xp, case["xml"])
        o = observe(sbeppc, xp, os.path.join(d, "out"))
        alarm = outcome_alarm(case["verdict"], o)
        print("edits: %s" % json.dumps(case.get("edits")))
        print("spec verdict: %s (broken rules: %s)" % (case["verdict"], case.get("broken")))
        print("command: %s --output-dir %s/out %s" % (sbeppc, d, xp))
        print("sbeppc exit: %s\nsbeppc output: %s\nfiles written: %s" % (o.rc, o.out[:1500], o.left[:20]))
        print("alarm: %s" % alarm)
        return 1 if alarm else 0
    if "files" in case and case["files"]:
        for fn, txt in case["files"].items():
            vlib.write(os.path.join(d, fn), txt)
        o = observe(sbeppc, "in.xml", os.path.join(d, "out"), cwd=d, arg="in.xml", files=sorted(case["files"]))
        alarm = outcome_alarm(case["verdict"], o)
        print("plan: %s; edits: %s" % (case.get("plan"), json.dumps(case.get("edits"))))
        print("spec verdict: %s (broken rules: %s)" % (case["verdict"], case.get("broken")))
        print("command: cd %s && %s --output-dir out in.xml" % (d, sbeppc))
        print("sbeppc exit: %s\nsbeppc output: %s\nfiles written: %s" % (o.rc, o.out[:1500], o.left[:20]))
        print("alarm: %s" % alarm)
        return 1 if alarm else 0
    if "corpus" in case:
        f = case["corpus"]
        o = observe(sbeppc, os.path.basename(f), os.path.join(d, "out"), cwd=os.path.dirname(f), arg=os.path.basename(f))
        print("expected: %s; sbeppc exit %s; output: %s; files: %s" % (case["expected"], o.rc, o.out[:1500], o.left[:20]))
        return 0 if (o.rc != 0) == (case["expected"] == "reject") else 1
    print("model-level failure: re-run ./verif check C08")
    return 1
