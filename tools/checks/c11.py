"""C11 - read-only views cannot mutate the buffer.

Design level: spec/Caps.tla (the permission lattice + the handle machine) is
model-checked by TLC: ConstIsSticky, ReadOnlyFrame, WritesNeedMutableOrigin,
TableLaws; the two design mutants (cursor guard off, conversion guard off) must
be refuted.  TLC emits the full permission table.

Static half: tools/capsgen.py compiles the table into detection-idiom probes
against the real generated headers (every message / level / member of every
schema x view byte x cursor byte x access path):
  stage A  static_assert(detector == allowed)          one TU per schema
  stage P  every `allowed` expression is instantiated  one TU per schema
  stage B  where the detector cannot see a rejection (not SFINAE) the call is
           compiled alone and must FAIL (negative TU, one per probe)
Dynamic half: harness/c11_readonly.cpp walks every decode image of the view
catalogue through message<const char> on a PROT_READ mapping (every getter,
size query, iterator, cursor getter, visit): a write fault is a violation; the
decode replays of the view pipeline (also on PROT_READ) are folded in.
"""
import json
import os
import random
import re
import threading

import capsgen
import catalogue
import schema as sch
import viewpipe
import vlib
from vlib import mc, tlc, try_cxx

CONFIGS_QUICK = [("g++", "c++11"), ("clang++", "c++17"), ("g++", "c++20")]
CONFIGS_THOROUGH = [(c, s) for c in ("g++", "clang++") for s in ("c++11", "c++14", "c++17", "c++20", "c++2b")]
NPROC = 10

CFG = ("CONSTANT CursorGuard = %s\nCONSTANT ConvGuard = %s\nSPECIFICATION Spec\nINVARIANT TypeOK\nINVARIANT ConstIsSticky\n"
       "PROPERTY ReadOnlyFrame\nPROPERTY WritesNeedMutableOrigin\nVIEW View\nCHECK_DEADLOCK FALSE\n")


def schemas(tier):
    hs = {S["package"]: S for S in catalogue.header_schemas()}
    names = ["h_refs", "h_counters_be"]
    if tier == "thorough":
        names += ["h_types8", "h_types64_be", "h_gaps", "h_extra_be"]
    pick = [hs[n] for n in names if n in hs]
    for S in catalogue.header_schemas():      # the catalogue is shared: keep the count if a name disappears
        if len(pick) >= len(names):
            break
        if S not in pick:
            pick.append(S)
    return catalogue.view_schemas() + pick


def run_caps_tlc(wd):
    """model-check Caps.tla; returns (TLCResult, mutant results)"""
    d = os.path.join(wd, "mc")
    vlib.fresh_dir(d)
    jobs = [("MC_Caps", "TRUE", "TRUE", "ASSUME TableLaws\nASSUME EmitTable\n"),
            ("MC_CapsNoCursorGuard", "FALSE", "TRUE", ""),
            ("MC_CapsNoConvGuard", "TRUE", "FALSE", "")]

    def job(j):
        name, cg, vg, body = j
        mc(d, name, "Caps", body, CFG % (cg, vg))
        return name, tlc(name, cwd=d, workers=1, xmx="2g", timeout=600)
    return vlib.parallel(jobs, job, nproc=3)


FAIL_RE = re.compile(r"C11\[(\d+)\]")


def failed_ids(out):
    ids = set()
    for line in out.splitlines():
        if "static assertion failed" in line or "static_assert failed" in line:
            m = FAIL_RE.search(line)
            if m:
                ids.add(int(m.group(1)))
    return ids


def other_errors(out):
    """error lines that are not failed static assertions"""
    res = []
    for line in out.splitlines():
        if re.search(r"\berror\b", line) and "static assertion failed" not in line and "static_assert failed" not in line:
            res.append(line.strip())
    return res


def inst_eids(out):
    """expression ids u<N> whose instantiation produced an error: g++ names the
    instantiation before the error ("In instantiation of 'void uN(V, C&) ..."),
    clang++ after it ("note: in instantiation of ... 'uN<...>' requested here")"""
    lines = out.splitlines()
    err = [i for i, l in enumerate(lines) if re.search(r"\berror\b", l)]
    eids = set()
    for k, i in enumerate(err):
        lo = err[k - 1] + 1 if k else 0
        hi = err[k + 1] if k + 1 < len(err) else len(lines)
        for l in lines[lo:i]:
            m = re.search(r"(?:In instantiation of|required from) .*\bu(\d+)[<(]", l)
            if m:
                eids.add(int(m.group(1)))
        for l in lines[i + 1:hi]:
            m = re.search(r"in instantiation of function template specialization '(?:\(anonymous namespace\)::)?u(\d+)<", l)
            if m:
                eids.add(int(m.group(1)))
    return eids


def flags(cfg):
    comp, std = cfg
    f = ["-std=" + std, "-w"]
    f.append("-fmax-errors=0" if comp.startswith("g++") else "-ferror-limit=0")
    return f


def static_half(v, tier, seed, table, wd):
    rnd = random.Random(seed)
    thorough = tier == "thorough"
    configs = CONFIGS_THOROUGH if thorough else CONFIGS_QUICK
    gens = []
    for S in schemas(tier):
        name = S["package"]
        try:
            inc = vlib.gen_headers(sch.to_xml(S), name)
        except vlib.SbeppcRejected as ex:
            v.violation("pipeline/sbeppc-rejects/" + name, "sbeppc rejects a catalogue schema: " + str(ex)[-600:])
            continue
        g = capsgen.CapsGen(S, table)
        det, pos = g.generate()
        sd = vlib.ensure_dir(os.path.join(wd, name))
        vlib.write(os.path.join(sd, "c11_detect_%s.cpp" % name), det)
        vlib.write(os.path.join(sd, "c11_inst_%s.cpp" % name), pos)
        gens.append((name, inc, g, sd))

    # ---- stage A + P -----------------------------------------------------
    jobs = [(name, inc, g, sd, cfg, kind) for (name, inc, g, sd) in gens for cfg in configs for kind in ("detect", "inst")]

    def compile_job(j):
        name, inc, g, sd, cfg, kind = j
        ok, out = try_cxx(os.path.join(sd, "c11_%s_%s.cpp" % (kind, name)), flags=flags(cfg), compiler=cfg[0], includes=[inc],
                          syntax_only=True, name="c11%s-%s" % (kind, name))
        return j, ok, out

    evaluations = 0
    soft = []            # (gen tuple, cfg, probe): detector says callable, spec says rejected, mechanism not fixed
    per_cfg = {}
    viol = {}            # signature -> [descriptions]

    def note(sig, desc, case):
        viol.setdefault(sig, []).append((desc, case))

    for (name, inc, g, sd, cfg, kind), ok, out in vlib.parallel(jobs, compile_job, nproc=NPROC):
        byid = {p["id"]: p for p in g.probes}
        ctag = "%s %s" % cfg
        if kind == "detect":
            evaluations += len(g.probes)
            per_cfg[ctag] = per_cfg.get(ctag, 0) + len(g.probes)
            if ok:
                continue
            ids = failed_ids(out)
            oth = other_errors(out)
            if oth and not ids:
                raise vlib.InfraError("C11 detection TU does not compile (%s, %s):\n%s" % (name, ctag, "\n".join(oth[:30])))
            if oth:
                # errors besides failed assertions: report, attributed to the TU
                note("caps/compile/detect", "[%s] %s: detection TU has errors besides failed probes:\n%s" % (ctag, name, "\n".join(oth[:12])),
                     {"schema": name, "config": cfg})
            for i in sorted(ids):
                p = byid[i]
                if p["kind"] == "perm" and not p["expected"] and p["mechanism"] == "rejected":
                    soft.append(((name, inc, g, sd), cfg, p))
                    continue
                what = ("detector says the call is well-formed, the spec rejects it" if p["expected"] is False else
                        "detector says the call is ill-formed, the spec allows it" if p["expected"] is True else
                        "byte type of the derived view differs from the spec's (expected %s)" % p["expected"])
                note(p["sig"], "[%s] %s: %s\n    %s" % (ctag, p["site"], what, p["expr"]), {"probe": p, "config": cfg})
        else:
            npos = sum(1 for p in g.probes if p["kind"] == "perm" and p["expected"] is True)
            evaluations += npos
            if ok:
                continue
            eids = inst_eids(out)
            hit = [p for p in g.probes if p["kind"] == "perm" and p["expected"] is True and p["eid"] in eids]
            if not hit:
                note("caps/compile/inst", "[%s] %s: an allowed operation does not instantiate:\n%s" % (ctag, name, "\n".join(other_errors(out)[:12])),
                     {"schema": name, "config": cfg})
            seen = set()
            for p in hit:
                key = (p["op"], p["path"])
                if key in seen:
                    continue
                seen.add(key)
                errs = [l for l in other_errors(out)][:6]
                note("caps/inst/%s/%s" % (p["op"], p["path"]),
                     "[%s] %s: allowed by the spec and accepted by overload resolution, but the body does not compile\n    %s\n%s" % (
                         ctag, p["site"], p["expr"], "\n".join(errs)), {"probe": p, "config": cfg})

    # ---- stage B: negative TUs for rejections the detector cannot see ----
    classes = {}
    for gen, cfg, p in soft:
        classes.setdefault((gen[0], cfg, p["op"], p["path"], p["v"], p["c"]), []).append((gen, cfg, p))
    chosen = []
    for key in sorted(classes):
        lst = classes[key]
        if thorough:
            chosen += lst if key[1] in (("g++", "c++11"), ("clang++", "c++17")) else rnd.sample(lst, 1)
        else:
            chosen += rnd.sample(lst, 1)

    written = set()
    for (name, inc, g, sd), cfg, p in chosen:
        src = os.path.join(sd, "neg", "c11_neg_%s_%d.cpp" % (name, p["id"]))
        if src not in written:
            written.add(src)
            vlib.write(src, g.negative_tu(p))

    def neg_job(j):
        (name, inc, g, sd), cfg, p = j
        src = os.path.join(sd, "neg", "c11_neg_%s_%d.cpp" % (name, p["id"]))
        ok, out = try_cxx(src, flags=flags(cfg), compiler=cfg[0], includes=[inc], syntax_only=True, name="c11neg-%s" % name)
        ok2 = True
        if p["id"] % 8 == 0:   # the same TU with the mutable instantiation must compile (the probe itself is well-formed)
            ok2, out2 = try_cxx(src, flags=flags(cfg) + ["-DC11_POSITIVE_TWIN"], compiler=cfg[0], includes=[inc], syntax_only=True, name="c11twin-%s" % name)
            if not ok2:
                raise vlib.InfraError("C11 negative TU is ill-formed for the mutable twin (%s):\n%s" % (src, out2[-2000:]))
        return j, ok, out

    hard_ok = 0
    soft_sigs = {}
    for ((name, inc, g, sd), cfg, p), ok, out in vlib.parallel(chosen, neg_job, nproc=NPROC):
        evaluations += 1
        if ok:
            note("caps/hard/%s/%s/view=%s/cursor=%s" % (p["op"], p["path"], p["v"], p["c"]),
                 "[%s %s] %s: the spec rejects this call, yet it COMPILES (negative compile test %s)\n    %s" % (
                     cfg[0], cfg[1], p["site"], "c11_neg_%s_%d.cpp" % (name, p["id"]), p["expr"]), {"probe": p, "config": cfg})
        else:
            hard_ok += 1
            soft_sigs["%s/%s" % (p["op"], p["path"])] = soft_sigs.get("%s/%s" % (p["op"], p["path"]), 0) + 1

    for k, n in sorted(soft_sigs.items()):
        vlib.log("C11 note: %s is rejected for const byte types by a hard error inside the call, not by overload resolution "
                 "(%d negative compile tests failed as required)" % (k, n))
    for sig, lst in sorted(viol.items()):
        desc = lst[0][0] + ("\n  (+%d more cases of this class)" % (len(lst) - 1) if len(lst) > 1 else "")
        v.violation(sig, desc, lst[0][1])

    nprobes = sum(len(g.probes) for (_, _, g, _) in gens)
    distinct = len({(p["sig"], p["site"]) for (_, _, g, _) in gens for p in g.probes})
    sample = []
    for (_, _, g, _) in gens[:1]:
        for want in (("set", "const"), ("cset_plain", "mut"), ("group_resize", "const"), ("da_push_back", "const")):
            for p in g.probes:
                if p["op"] == want[0] and p["v"] == want[1] and (p["c"] in ("none", "const")):
                    sample.append({"signature": p["sig"], "site": p["site"], "expression": p["expr"], "expected_by_TLC": p["expected"]})
                    break
    v.part("static", schemas=[x[0] for x in gens], probes_per_run=nprobes, configs=["%s %s" % c for c in configs],
           probes_per_config=per_cfg, not_sfinae_rejections_seen=len(soft), negative_tus_compiled=len(chosen),
           negative_tus_failed_as_required=hard_ok, rejected_by_hard_error_classes=soft_sigs,
           members=sum(g.stats["members"] for (_, _, g, _) in gens), receivers=sum(g.stats["sites"] for (_, _, g, _) in gens))
    return evaluations, distinct, sample


def vectors_for(S, tier, seed, wd):
    """decode vectors of one view schema (TLC step of the view pipeline, no replay)"""
    key = viewpipe.pipeline_key(tier, seed, "c11vec-" + S["package"])
    cpath = os.path.join(vlib.CACHE, "c11", "vectors-%s-%s.ndjson" % (S["package"], key))
    if os.path.exists(cpath) and os.environ.get("VERIF_NOCACHE") != "1":
        return cpath, None
    res = viewpipe.run_schema(S, tier, seed, [], wd)
    if res.get("sbeppc_rejected"):
        raise vlib.InfraError("sbeppc rejects %s" % S["package"])
    if res["spec_violations"]:
        raise vlib.InfraError("View.tla failed while producing C11 vectors: %s" % res["spec_violations"][0]["tail"][-600:])
    src = os.path.join(wd, S["package"], "vectors-view.ndjson")
    vlib.ensure_dir(os.path.dirname(cpath))
    recs = [l for l in open(src) if '"kind":"decode"' in l]
    with open(cpath + ".tmp%d" % os.getpid(), "w") as f:
        f.writelines(recs)
    os.replace(cpath + ".tmp%d" % os.getpid(), cpath)
    return cpath, res


def dynamic_half(v, tier, seed, wd):
    thorough = tier == "thorough"
    configs = CONFIGS_THOROUGH if thorough else CONFIGS_QUICK
    src = os.path.join(vlib.HARNESS, "c11_readonly.cpp")
    evals = 0
    images = 0
    samples = []
    runs = []
    for S in catalogue.view_schemas():
        name = S["package"]
        inc = vlib.gen_headers(sch.to_xml(S), name)
        vec, _ = vectors_for(S, tier, seed, os.path.join(wd, "vec"))
        walker = os.path.join(wd, "walk_%s.inc" % name)
        vlib.write(walker, capsgen.walker_cpp(S))
        for i, cfg in enumerate(configs):
            runs.append((name, inc, vec, walker, cfg, i % 2 == 1))

    def job(j):
        name, inc, vec, walker, cfg, asserts = j
        fl = ["-std=" + cfg[1], "-O1", "-w", '-DC11_WALKER="%s"' % walker] + (["-DC11_ASSERTS"] if asserts else [])
        ok, out = try_cxx(src, flags=fl, compiler=cfg[0], includes=[inc], deps=[walker], name="c11ro-%s-%s-%s" % (name, cfg[0], cfg[1]))
        if not ok:
            return j, None, out
        st = vlib.run([out, "selftest"], timeout=60)
        if st.returncode != 0:
            raise vlib.InfraError("c11_readonly selftest failed (write detector blind?): %s %s" % (st.stdout, st.stderr))
        return j, vlib.run_harness(out, ["replay", name, vec], timeout=1200), None

    for (name, inc, vec, walker, cfg, asserts), r, err in vlib.parallel(runs, job, nproc=6):
        if r is None:
            raise vlib.InfraError("the read-only walker does not compile against message<const char> (%s, %s %s):\n%s" % (name, cfg[0], cfg[1], err[-2500:]))
        mism, stat, p = r
        evals += stat["evaluations"]
        images = max(images, stat["images"])
        v.part("readonly_%s_%s_%s" % (name, cfg[0], cfg[1]), evaluations=stat["evaluations"], images=stat["images"], per_pass=stat["per_kind"],
               asserts=asserts, non_write_traps=stat["non_write_traps"])
        if stat["non_write_traps"]:
            vlib.log("C11 note: %d walker pass(es) of %s [%s %s] stopped at a read fault / assertion (not a write): %s" % (
                stat["non_write_traps"], name, cfg[0], cfg[1], json.dumps(stat["trap_samples"][:2])))
        for m in mism:
            v.violation(m["sig"], "[%s %s%s] %s" % (cfg[0], cfg[1], " asserts" if asserts else "", m["desc"]),
                        {"harness": "c11_readonly", "schema": name, "config": cfg, "case": m["case"]})
        if not samples and stat["images"]:
            first = json.loads(open(vec).readline())
            samples.append({"read_only_image": {"schema": name, "msg": first["msg"], "size": first["size"],
                                                "bytes": "%d bytes: %s..." % (len(first["buf"]), first["buf"][:16])},
                            "calls_on_it": "named getters, get_by_tag, sizes, iterators, cursor getters x 5 wrappers, visit", "writes": 0})
    return evals, images, samples


def fold_view_replays(v, results):
    """decode replays of the view pipeline run on PROT_READ mappings: a trap
    there with the guard-page text is a write (or an out-of-view access) by a getter"""
    n = 0
    for res in results:
        for r in res.get("runs", []):
            n += r["stat"]["per_kind"].get("leaf", 0) + r["stat"]["per_kind"].get("data-val", 0) + r["stat"]["per_kind"].get("group-n", 0)
            for m in r["mismatches"]:
                if m["sig"].startswith("decode") and "guard page" in m["desc"]:
                    v.violation("dyn/replay/" + m["sig"], "[%s %s] getter replay on a read-only mapping trapped: %s" % (
                        r["config"][0], r["config"][1], m["desc"]), {"harness": "view_main", "case": m["case"]})
    return n


def run(v, tier, seed):
    wd = vlib.ensure_dir(os.path.join(vlib.WORK, "c11"))
    # the view pipeline (shared, cached) runs beside everything else
    box = {}

    # thorough: the thorough pipeline result is folded in when some other check
    # of this tree already produced it; computing it here alone costs more than
    # the whole of C11, so otherwise the quick-tier replays are used
    vtier = tier
    if tier == "thorough":
        ck = os.path.join(vlib.CACHE, "view", "view-%s.json" % viewpipe.pipeline_key(tier, seed, "view"))
        if not os.path.exists(ck):
            vtier = "quick"

    def bg():
        try:
            box["view"] = viewpipe.view_results(vtier, seed)
        except Exception as ex:   # noqa: BLE001
            box["err"] = ex
    th = threading.Thread(target=bg)
    th.start()

    # ---- 1. the design: TLC on Caps.tla -----------------------------------
    states = trans = 0
    records = None
    for name, r in run_caps_tlc(wd):
        if name == "MC_Caps":
            if not r.ok:
                v.violation("spec/Caps/" + str(r.violated), "Caps.tla violates %s in the model itself:\n%s" % (r.violated, r.raw[-1500:]))
            records = r.records
            states, trans = r.distinct, r.generated
            v.part("tlc_caps", distinct_states=r.distinct, generated=r.generated, table_rows=len(r.records), wall_s=round(r.wall, 1))
        else:
            # a design without the guard must be refuted by the same invariant
            if r.ok or r.violated != "ConstIsSticky":
                raise vlib.InfraError("%s: the design mutant is not refuted (exit %s, violated %s) - ConstIsSticky is vacuous" % (name, r.exit, r.violated))
            v.part("tlc_" + name, refuted_by=r.violated, generated=r.generated)
    if not records:
        th.join()
        return v.finish("exploration")
    table = capsgen.load_table(records)

    # ---- 2. static half ----------------------------------------------------
    ev_s, distinct, samples = static_half(v, tier, seed, table, wd)
    # ---- 3. dynamic half ---------------------------------------------------
    ev_d, images, dsamples = dynamic_half(v, tier, seed, wd)
    th.join()
    if "err" in box:
        raise box["err"]
    ev_r = fold_view_replays(v, box["view"])
    v.part("view_pipeline_replays", tier_of_results=vtier, getter_evaluations_on_readonly_mappings=ev_r)

    v.add(states=states, transitions=trans, evaluations=ev_s + ev_d + ev_r, distinct_nontrivial=distinct + images,
          rule="static: one probe per (schema, message, level, member or receiver, operation kind, access path, view byte, cursor byte) "
               "row of the TLC table that applies to the member (unspecified rows give no probe); every probe is evaluated under every "
               "compiler configuration; distinct = distinct (signature, site) pairs.  dynamic: one walk (5 passes: named, cursor plain / "
               "init / skip / by tag) per decode image of the view catalogue on a read-only mapping; distinct += distinct images; "
               "evaluations counts individual non-mutating calls plus the getter replays of the view pipeline",
          samples=samples[:3] + dsamples[:1], exhaustive=False,
          table_rows=table["rows"])
    v.assumptions += ["g++ 12 / clang++ 14 front ends decide well-formedness (SFINAE detection, explicit instantiation, -fsyntax-only)",
                      "x86-64 Linux: a write to a PROT_READ page raises SIGSEGV; reads of it never do",
                      "byte types probed: char / const char",
                      "scope: view catalogue + %d header-layout schemas; the images of the dynamic half are those TLC emits for the seeded shapes" % (
                          len(schemas(tier)) - 2)]
    return v.finish("exploration", "Caps.tla model-checked (ConstIsSticky, ReadOnlyFrame, TableLaws; design mutants refuted); its permission "
                    "table compiled into probes against the generated headers; non-mutating calls executed on read-only mappings")


def replay(rp):
    print(json.dumps(rp, indent=1)[:6000])
    case = rp.get("case") or {}
    p = case.get("probe")
    if p:
        print("probe expression (V = %s message view, C = %s cursor): %s" % (p["v"], p["c"], p["expr"]))
    print("re-run: ./verif check C11   (probes and images are regenerated deterministically)")
    return 0
