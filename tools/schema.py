"""Schema transliteration: JSON schema  ->  SBE XML  /  TLA+ record text.

JSON shape (Appendix C of DESIGN.md).  Absent optional attributes are simply
absent (or None) in JSON; in TLA+ they become -1 / "" so every record of a kind
has the same shape.

  schema  := {package, id, version, byteOrder, headerType?, types:[enc...], messages:[msg...]}
  enc     := {kind:"type", name, prim, length?, presence?, min?, max?, null?, const?, valueRef?, offset?, sinceVersion?, charEnc?, description?, semanticType?, deprecated?}
           | {kind:"composite", name, elements:[enc|ref...], offset?, ...}
           | {kind:"enum", name, enc, values:[{name,value,...}], offset?}
           | {kind:"set",  name, enc, choices:[{name,index,...}], offset?}
           | {kind:"ref",  name, type, offset?}
  msg     := {name, id, blockLength?, fields:[field], groups:[group], data:[data], ...}
  field   := {name, id, type, offset?, presence?, valueRef?, const?, sinceVersion?, ...}
  group   := {name, id, dimensionType?, blockLength?, fields, groups, data}
  data    := {name, id, type}

This module knows names and attribute spelling only - never offsets or sizes.
"""
from xml.sax.saxutils import escape, quoteattr


def _attrs(pairs):
    return "".join(" %s=%s" % (k, quoteattr(str(v))) for k, v in pairs if v is not None)


_COMMON = [("description", "description"), ("semanticType", "semanticType"),
           ("sinceVersion", "sinceVersion"), ("deprecated", "deprecated")]


def _common(e):
    return [(x, e.get(j)) for x, j in _COMMON]


def enc_xml(e, ind):
    k = e["kind"]
    sp = " " * ind
    if k == "type":
        a = [("name", e["name"]), ("primitiveType", e["prim"]), ("length", e.get("length")),
             ("presence", e.get("presence")), ("minValue", e.get("min")), ("maxValue", e.get("max")),
             ("nullValue", e.get("null")), ("offset", e.get("offset")), ("valueRef", e.get("valueRef")),
             ("characterEncoding", e.get("charEnc"))] + _common(e)
        if e.get("const") is not None:
            return "%s<type%s>%s</type>\n" % (sp, _attrs(a), escape(str(e["const"])))
        return "%s<type%s/>\n" % (sp, _attrs(a))
    if k == "composite":
        a = [("name", e["name"]), ("offset", e.get("offset"))] + _common(e)
        s = "%s<composite%s>\n" % (sp, _attrs(a))
        for m in e["elements"]:
            s += enc_xml(m, ind + 4)
        return s + "%s</composite>\n" % sp
    if k == "enum":
        a = [("name", e["name"]), ("encodingType", e["enc"]), ("offset", e.get("offset"))] + _common(e)
        s = "%s<enum%s>\n" % (sp, _attrs(a))
        for v in e["values"]:
            s += "%s    <validValue%s>%s</validValue>\n" % (
                sp, _attrs([("name", v["name"])] + _common(v)), escape(str(v["value"])))
        return s + "%s</enum>\n" % sp
    if k == "set":
        a = [("name", e["name"]), ("encodingType", e["enc"]), ("offset", e.get("offset"))] + _common(e)
        s = "%s<set%s>\n" % (sp, _attrs(a))
        for c in e["choices"]:
            s += "%s    <choice%s>%s</choice>\n" % (
                sp, _attrs([("name", c["name"])] + _common(c)), c["index"])
        return s + "%s</set>\n" % sp
    if k == "ref":
        a = [("name", e["name"]), ("type", e["type"]), ("offset", e.get("offset"))] + _common(e)
        return "%s<ref%s/>\n" % (sp, _attrs(a))
    raise ValueError(k)


def level_xml(lv, ind):
    sp = " " * ind
    s = ""
    for f in lv.get("fields", []):
        a = [("name", f["name"]), ("id", f["id"]), ("type", f["type"]), ("offset", f.get("offset")),
             ("presence", f.get("presence")), ("valueRef", f.get("valueRef"))] + _common(f)
        if f.get("const") is not None:
            s += "%s<field%s>%s</field>\n" % (sp, _attrs(a), escape(str(f["const"])))
        else:
            s += "%s<field%s/>\n" % (sp, _attrs(a))
    for g in lv.get("groups", []):
        a = [("name", g["name"]), ("id", g["id"]), ("dimensionType", g.get("dimensionType")),
             ("blockLength", g.get("blockLength"))] + _common(g)
        s += "%s<group%s>\n" % (sp, _attrs(a))
        s += level_xml(g, ind + 4)
        s += "%s</group>\n" % sp
    for d in lv.get("data", []):
        a = [("name", d["name"]), ("id", d["id"]), ("type", d["type"])] + _common(d)
        s += "%s<data%s/>\n" % (sp, _attrs(a))
    return s


def to_xml(S):
    a = [("package", S["package"]), ("id", S["id"]), ("version", S["version"]),
         ("semanticVersion", S.get("semanticVersion")), ("description", S.get("description")),
         ("byteOrder", S.get("byteOrder")), ("headerType", S.get("headerType"))]
    s = '<?xml version="1.0" encoding="UTF-8"?>\n'
    s += '<sbe:messageSchema xmlns:sbe="http://fixprotocol.io/2016/sbe"%s>\n' % _attrs(a)
    s += "    <types>\n"
    for t in S["types"]:
        s += enc_xml(t, 8)
    s += "    </types>\n"
    for m in S["messages"]:
        a = [("name", m["name"]), ("id", m["id"]), ("blockLength", m.get("blockLength"))] + _common(m)
        s += "    <sbe:message%s>\n" % _attrs(a)
        s += level_xml(m, 8)
        s += "    </sbe:message>\n"
    s += "</sbe:messageSchema>\n"
    return s


def _msg_xml(m):
    a = [("name", m["name"]), ("id", m["id"]), ("blockLength", m.get("blockLength"))] + _common(m)
    return "    <sbe:message%s>\n%s    </sbe:message>\n" % (_attrs(a), level_xml(m, 8))


def to_xml_files(S, tree, main="in.xml", inc="inc%d.xml"):
    """Transliteration of a Files.tla tree (sequence of files, each a sequence
    of items {k: types|msg|inc, ix: [1-based indices], f: file index}) into
    {file name: text}; file 1 is `main` and carries the messageSchema element,
    an included file holds its items at the top level (sbeppc reads the
    children of the included document)."""
    XI = ' xmlns:xi="http://www.w3.org/2001/XInclude"'

    def items(f):
        out = ""
        for it in tree[f - 1]:
            if it["k"] == "types":
                out += "    <types>\n" + "".join(enc_xml(S["types"][i - 1], 8) for i in it["ix"]) + "    </types>\n"
            elif it["k"] == "msg":
                out += "".join(_msg_xml(S["messages"][i - 1]) for i in it["ix"])
            else:
                out += '    <xi:include%s href=%s/>\n' % (XI, quoteattr(inc % it["f"]))
        return out
    a = [("package", S["package"]), ("id", S["id"]), ("version", S["version"]),
         ("semanticVersion", S.get("semanticVersion")), ("description", S.get("description")),
         ("byteOrder", S.get("byteOrder")), ("headerType", S.get("headerType"))]
    files = {main: '<?xml version="1.0" encoding="UTF-8"?>\n<sbe:messageSchema xmlns:sbe="http://fixprotocol.io/2016/sbe"%s>\n%s</sbe:messageSchema>\n'
             % (_attrs(a), items(1))}
    for f in range(2, len(tree) + 1):
        files[inc % f] = '<?xml version="1.0" encoding="UTF-8"?>\n' + items(f)
    return files


# ------------------------------------------------------------------ TLA+ --

def tla_str(s):
    return '"' + (str(s).replace("\\", "\\\\").replace('"', '\\"')
                  .replace("\n", "\\n").replace("\r", "\\r").replace("\t", "\\t")) + '"'


def tla(v):
    """Generic JSON -> TLA+ value text. dict -> record, list -> sequence,
    None -> -1 (absent), bool -> TRUE/FALSE, int -> int, str -> string."""
    if v is None:
        return "-1"
    if v is True:
        return "TRUE"
    if v is False:
        return "FALSE"
    if isinstance(v, int):
        return str(v)
    if isinstance(v, str):
        return tla_str(v)
    if isinstance(v, (list, tuple)):
        return "<<" + ", ".join(tla(x) for x in v) + ">>"
    if isinstance(v, dict):
        if not v:
            return "<<>>"
        return "[" + ", ".join("%s |-> %s" % (k, tla(x)) for k, x in v.items()) + "]"
    raise ValueError(repr(v))
