#!/usr/bin/env python3
"""Binding self-test: apply a small textual mutation (or a patch file) to a
scratch worktree of /repo (never /repo itself), run checks against it through
VERIF_REPO, report whether each raised a VIOLATION, remove the worktree.

usage: mutate.py <mutant.json|patch.diff> <Cxx> [<Cxx>...] [--tier quick]
mutant.json: {"name","file","old","new","expect":["C03",...]}
"""
import json
import os
import subprocess
import sys


def main():
    args = [a for a in sys.argv[1:] if not a.startswith("--")]
    tier = "quick"
    if "--tier" in sys.argv:
        tier = sys.argv[sys.argv.index("--tier") + 1]
        args.remove(tier)
    spec, checks = args[0], args[1:]
    name = os.path.basename(spec).split(".")[0]
    wt = "/tmp/wt-mut-%s-%d" % (name, os.getpid())
    subprocess.run(["git", "-C", "/repo", "worktree", "add", "--detach", "-f", wt, "HEAD"], check=True, stdout=subprocess.DEVNULL, stderr=subprocess.DEVNULL)
    rc_all = 0
    try:
        if spec.endswith(".json"):
            m = json.load(open(spec))
            muts = m if isinstance(m, list) else [m]
            for mu in muts:
                p = os.path.join(wt, mu["file"])
                s = open(p).read()
                if mu["old"] not in s:
                    print("MUTANT DOES NOT APPLY: %s" % mu["name"])
                    return 3
                open(p, "w").write(s.replace(mu["old"], mu["new"], mu.get("count", 1)))
        else:
            subprocess.run(["git", "-C", wt, "apply", os.path.abspath(spec)], check=True)
        env = dict(os.environ, VERIF_REPO=wt, VERIF_NOCACHE="0")
        for c in checks:
            # the check writes evidence/<id>.json: keep the committed one (evidence must describe /repo itself)
            evp = os.path.join(os.path.dirname(os.path.dirname(os.path.abspath(__file__))), "evidence", c + ".json")
            keep = open(evp).read() if os.path.exists(evp) else None
            p = subprocess.run(["timeout", "1500", os.path.join(os.path.dirname(os.path.dirname(os.path.abspath(__file__))), "verif"), "check", c, "--tier", tier],
                               env=env, stdout=subprocess.PIPE, stderr=subprocess.STDOUT, text=True)
            if keep is not None:
                open(evp, "w").write(keep)
            viol = [l for l in p.stdout.splitlines() if l.startswith("VIOLATION")]
            sigs = [l.strip() for l in p.stdout.splitlines() if l.strip().startswith("signature:")]
            print("%s on mutant %s: exit %d, %d VIOLATION line(s)" % (c, name, p.returncode, len(viol)))
            for s in sigs[:4]:
                print("   " + s)
            if p.returncode not in (0, 1):
                print(p.stdout[-1500:])
            if p.returncode != 1:
                rc_all = 1
    finally:
        subprocess.run(["git", "-C", "/repo", "worktree", "remove", "--force", wt], stdout=subprocess.DEVNULL, stderr=subprocess.DEVNULL)
    return rc_all


if __name__ == "__main__":
    sys.exit(main())
