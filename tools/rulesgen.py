"""C08 schema layer: JSON schema <-> the TLA+ record of spec/Rules.tla.

Pure transliteration, both ways.  `normalize` extends viewgen.normalize with
the attributes the validity rules talk about (min/max/null/const/valueRef
strings, enum values, set choices; "" = attribute absent, `lenx` = the
`length` attribute is written explicitly).  `denormalize` is its inverse and
yields the JSON shape tools/schema.py:to_xml accepts.  Nothing in here decides
whether a schema is valid, computes an offset, a size or a bound.
"""
import copy

import catalogue
import schema as sch
from catalogue import T, F, G, D

PRIMS = {"char", "int8", "uint8", "int16", "uint16", "int32", "uint32", "int64", "uint64", "float", "double"}


def _s(v):
    return "" if v is None else str(v)


def _off(e):
    o = e.get("offset")
    return -1 if o is None else o


def norm_enc(e):
    k = e["kind"]
    if k == "type":
        ln = e.get("length")
        if e.get("presence") == "constant" and e["prim"] == "char" and ln is None and len(_s(e.get("const"))) != 1:
            raise ValueError("base schema: char constant %s needs an explicit length" % e["name"])
        return {"kind": "type", "name": e["name"], "prim": e["prim"], "length": 1 if ln is None else ln,
                "lenx": ln is not None, "presence": e.get("presence") or "required", "offset": _off(e),
                "min": _s(e.get("min")), "max": _s(e.get("max")), "null": _s(e.get("null")),
                "const": _s(e.get("const")), "valueRef": _s(e.get("valueRef"))}
    if k == "composite":
        return {"kind": "composite", "name": e["name"], "offset": _off(e), "elements": [norm_enc(x) for x in e["elements"]]}
    if k == "enum":
        return {"kind": "enum", "name": e["name"], "enc": e["enc"], "offset": _off(e),
                "values": [{"name": v["name"], "value": str(v["value"])} for v in e["values"]]}
    if k == "set":
        return {"kind": "set", "name": e["name"], "enc": e["enc"], "offset": _off(e),
                "choices": [{"name": c["name"], "index": int(c["index"])} for c in e["choices"]]}
    if k == "ref":
        return {"kind": "ref", "name": e["name"], "type": e["type"], "offset": _off(e)}
    raise ValueError(k)


def norm_level(lv, is_group):
    d = {"name": lv["name"], "id": lv["id"]}
    if is_group:
        d["dim"] = lv.get("dimensionType") or "groupSizeEncoding"
    bl = lv.get("blockLength")
    d["blockLength"] = -1 if bl is None else bl
    d["fields"] = [{"name": f["name"], "id": f["id"], "type": f["type"], "offset": _off(f),
                    "presence": f.get("presence") or "required", "valueRef": _s(f.get("valueRef"))}
                   for f in lv.get("fields", [])]
    d["groups"] = [norm_level(g, True) for g in lv.get("groups", [])]
    d["data"] = [{"name": x["name"], "id": x["id"], "type": x["type"]} for x in lv.get("data", [])]
    return d


def normalize(S):
    return {"package": S["package"], "id": S["id"], "version": S["version"],
            "byteOrder": S.get("byteOrder") or "littleEndian",
            "headerType": S.get("headerType") or "messageHeader",
            "types": [norm_enc(t) for t in S["types"]],
            "messages": [norm_level(m, False) for m in S["messages"]]}


def schema_tla(S):
    return sch.tla(normalize(S))


# ---------------------------------------------------------------- inverse --

def _n(v):
    return None if v == "" else v


def _o(v):
    return None if v == -1 else v


def denorm_enc(e):
    k = e["kind"]
    if k == "type":
        return {"kind": "type", "name": e["name"], "prim": e["prim"],
                "length": e["length"] if (e["lenx"] or e["length"] != 1) else None,
                "presence": None if e["presence"] == "required" else e["presence"], "offset": _o(e["offset"]),
                "min": _n(e["min"]), "max": _n(e["max"]), "null": _n(e["null"]), "const": _n(e["const"]),
                "valueRef": _n(e["valueRef"])}
    if k == "composite":
        return {"kind": "composite", "name": e["name"], "offset": _o(e["offset"]), "elements": [denorm_enc(x) for x in e["elements"]]}
    if k == "enum":
        return {"kind": "enum", "name": e["name"], "enc": e["enc"], "offset": _o(e["offset"]),
                "values": [{"name": v["name"], "value": v["value"]} for v in e["values"]]}
    if k == "set":
        return {"kind": "set", "name": e["name"], "enc": e["enc"], "offset": _o(e["offset"]),
                "choices": [{"name": c["name"], "index": c["index"]} for c in e["choices"]]}
    if k == "ref":
        return {"kind": "ref", "name": e["name"], "type": e["type"], "offset": _o(e["offset"])}
    raise ValueError(k)


def denorm_level(lv, is_group):
    d = {"name": lv["name"], "id": lv["id"], "blockLength": _o(lv["blockLength"])}
    if is_group:
        d["dimensionType"] = lv["dim"]
    d["fields"] = [{"name": f["name"], "id": f["id"], "type": f["type"], "offset": _o(f["offset"]),
                    "presence": None if f["presence"] == "required" else f["presence"], "valueRef": _n(f["valueRef"])}
                   for f in lv["fields"]]
    d["groups"] = [denorm_level(g, True) for g in lv["groups"]]
    d["data"] = [{"name": x["name"], "id": x["id"], "type": x["type"]} for x in lv["data"]]
    return d


def denormalize(N):
    """record as emitted by TLC (ToJson of the mutated schema) -> schema.py JSON.
    (ToJson writes sequences as arrays; an empty sequence as [])"""
    return {"package": N["package"], "id": N["id"], "version": N["version"], "byteOrder": N["byteOrder"],
            "headerType": N["headerType"], "types": [denorm_enc(t) for t in N["types"]],
            "messages": [denorm_level(m, False) for m in N["messages"]]}


def apply_edits(N, edits):
    """Transliteration of SchemaGen.tla's ApplyAll: set attribute `attr` of the
    node at `path` (alternating record field / 1-based sequence index)."""
    N = copy.deepcopy(N)
    for ed in edits:
        node = N
        for step in ed["path"]:
            node = node[step - 1] if isinstance(step, int) else node[step]
        if isinstance(ed["attr"], int):      # replace the element of a sequence
            node[ed["attr"] - 1] = ed["val"]
        else:
            node[ed["attr"]] = ed["val"]
    return N


# ------------------------------------------------------------ base schemas --

def rules_schema():
    """A small schema with explicit min/max/null values on every numeric
    primitive, enums over several encodings (one through a named type), sets of
    every width, constants (value and valueRef), inline composites two levels
    deep, a chain of composite refs, header members given as refs, a second
    header / dimension / data composite, unreferenced types, nested groups, and
    a three-field message / three-member composite for the offset grids."""
    types = [
        T("u16t", "uint16"),
        T("u8t", "uint8"),
        {"kind": "composite", "name": "messageHeader", "elements": [
            {"kind": "ref", "name": "blockLength", "type": "u16t"}, T("templateId", "uint16"),
            T("schemaId", "uint16"), T("version", "uint8"), T("numGroups", "uint8")]},
        {"kind": "composite", "name": "hdr2", "elements": [
            T("version", "uint16"), T("schemaId", "uint32"), T("templateId", "uint8"), T("blockLength", "uint32")]},
        {"kind": "composite", "name": "groupSizeEncoding", "elements": [
            T("blockLength", "uint16"), T("numInGroup", "uint8")]},
        {"kind": "composite", "name": "dim2", "elements": [T("numInGroup", "uint16"), T("blockLength", "uint8", offset=4)]},
        catalogue.vardata(),
        {"kind": "composite", "name": "vd8", "elements": [
            {"kind": "ref", "name": "length", "type": "u8t"}, T("varData", "char", length=0)]},
        T("i8r", "int8", min="-100", max="100"),
        T("u8r", "uint8", min="1", max="200"),
        T("i16r", "int16", min="-32768", max="32767"),
        T("u16o", "uint16", presence="optional", null="65535", min="0", max="65534"),
        T("i32o", "int32", presence="optional", null="-2147483648", max="5"),
        T("u32r", "uint32", min="7"),
        T("i64o", "int64", presence="optional", null="-9223372036854775808", min="-9223372036854775807", max="9223372036854775807"),
        T("u64o", "uint64", presence="optional", null="18446744073709551615", min="0", max="18446744073709551614"),
        T("f32r", "float", min="-1.5", max="2.5e3"),
        T("f64o", "double", presence="optional", null="NaN", min="-1e300", max="1e300"),
        T("str5", "char", length=5),
        T("c1", "char"),
        T("kU8", "uint8", presence="constant", const="200"),
        T("kI16", "int16", presence="constant", const="-5"),
        T("kU64", "uint64", presence="constant", const="18446744073709551615"),
        T("kStr", "char", presence="constant", length=4, const="abcd"),
        T("kRef", "uint16", presence="constant", valueRef="e16.Q"),
        T("spare1", "uint32"),
        {"kind": "composite", "name": "tri", "elements": [T("x", "uint8"), T("y", "uint16"), T("z", "uint32")]},
        T("spare2", "int8", length=3),
        {"kind": "enum", "name": "eC", "enc": "char", "values": [{"name": "A", "value": "a"}, {"name": "B", "value": "b"}]},
        {"kind": "enum", "name": "e8", "enc": "uint8", "values": [{"name": "One", "value": "1"}, {"name": "Max", "value": "254"}]},
        {"kind": "enum", "name": "ei8", "enc": "int8", "values": [{"name": "Neg", "value": "-3"}, {"name": "Pos", "value": "3"}]},
        {"kind": "enum", "name": "e16", "enc": "u16t", "values": [{"name": "P", "value": "300"}, {"name": "Q", "value": "65534"}]},
        {"kind": "enum", "name": "e32", "enc": "uint32", "values": [{"name": "V", "value": "70000"}]},
        {"kind": "enum", "name": "e64", "enc": "uint64", "values": [{"name": "W", "value": "4294967296"}, {"name": "Z", "value": "0"}]},
        {"kind": "set", "name": "s8", "enc": "uint8", "choices": [{"name": "a", "index": 0}, {"name": "b", "index": 7}]},
        {"kind": "set", "name": "s16", "enc": "u16t", "choices": [{"name": "a", "index": 3}, {"name": "b", "index": 15}]},
        {"kind": "set", "name": "s32", "enc": "uint32", "choices": [{"name": "a", "index": 31}]},
        {"kind": "set", "name": "s64", "enc": "uint64", "choices": [{"name": "a", "index": 32}, {"name": "b", "index": 63}]},
        {"kind": "composite", "name": "leaf", "elements": [T("x", "int16"), {"kind": "ref", "name": "o", "type": "u16o"}]},
        {"kind": "composite", "name": "mid", "elements": [T("m", "uint8"), {"kind": "ref", "name": "lf", "type": "leaf", "offset": 2}]},
        {"kind": "composite", "name": "top", "elements": [
            {"kind": "ref", "name": "md", "type": "mid"},
            {"kind": "composite", "name": "in1", "elements": [
                T("a", "uint8"),
                {"kind": "composite", "name": "in2", "elements": [
                    T("p", "uint16", min="1", max="9"), T("q", "uint32", offset=4),
                    {"kind": "enum", "name": "ie", "enc": "uint8", "values": [{"name": "U", "value": "1"}, {"name": "V", "value": "2"}]},
                    {"kind": "set", "name": "is", "enc": "uint8", "choices": [{"name": "c0", "index": 0}, {"name": "c7", "index": 7}]},
                    {"kind": "ref", "name": "rl", "type": "leaf"}]},
                T("z", "int8", length=2)]},
            T("k", "uint8", presence="constant", const="9"),
            T("tail", "uint16", offset=40)]},
    ]
    msgs = [
        G("m1", 1, blockLength=64, fields=[
            F("a", 1, "u8r"), F("b", 2, "i16r", offset=2), F("c", 3, "u16o"), F("d", 4, "i32o"), F("e", 5, "u64o", offset=16),
            F("f", 6, "f32r"), F("g", 7, "f64o"), F("h", 8, "str5"), F("k1", 9, "kU8"), F("k2", 10, "kStr"),
            F("k3", 11, "e16", presence="constant", valueRef="e16.P"),
            F("k4", 12, "uint16", presence="constant", valueRef="e16.Q"),
            F("en", 13, "eC"), F("st", 14, "s64"), F("t", 15, "i8r"), F("ch", 16, "c1")],
          groups=[G("g1", 20, fields=[F("x", 1, "top"), F("y", 2, "e8", offset=44), F("z", 3, "s16")], blockLength=48,
                    groups=[G("g2", 21, dimensionType="dim2", fields=[F("p", 1, "leaf"), F("q", 2, "uint8", offset=5)],
                              groups=[G("g3", 22, fields=[F("u", 1, "i64o"), F("v", 2, "s8", offset=9)])],
                              data=[D("gd", 23, "vd8")])]),
                  G("g4", 24, fields=[])],
          data=[D("d1", 30), D("d2", 31, "vd8")]),
        G("m2", 2, fields=[F("only", 1, "mid"), F("u", 2, "u32r"), F("w", 3, "s32"), F("e", 4, "ei8"), F("e2", 5, "e32"), F("e3", 6, "e64"),
                           F("kk", 7, "kRef"), F("k64", 8, "kU64"), F("ki", 9, "kI16")]),
        G("m3", 3, fields=[F("a", 1, "uint8"), F("b", 2, "uint16"), F("c", 3, "uint32")]),
    ]
    return {"package": "rules", "id": 9, "version": 2, "byteOrder": "littleEndian", "types": types, "messages": msgs}
