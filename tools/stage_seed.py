#!/usr/bin/env python3
"""Stage a sub-agent's _seed directory for confirm_seed.py, renumbering its
changeN/demoN/metaN so that they do not collide with seeds already recorded.
usage: stage_seed.py <PID> <agent _seed dir> -> prints the staging directory"""
import glob
import os
import re
import shutil
import sys

pid, src = sys.argv[1], sys.argv[2]
ROOT = os.path.dirname(os.path.dirname(os.path.abspath(__file__)))
have = [int(os.path.basename(d).split("_")[1]) for d in glob.glob(os.path.join(ROOT, "seeded", pid + "_*")) if os.path.basename(d).split("_")[1].isdigit()]
off = max(have or [0])
dst = "/tmp/stage-%s-%d" % (pid, off)
shutil.rmtree(dst, ignore_errors=True)
os.makedirs(dst)
for f in sorted(glob.glob(os.path.join(src, "change*.diff"))):
    n = int(re.search(r"change(\d+)\.diff", f).group(1))
    m = n + off
    shutil.copy(f, os.path.join(dst, "change%d.diff" % m))
    if os.path.isdir(os.path.join(src, "demo%d" % n)):
        shutil.copytree(os.path.join(src, "demo%d" % n), os.path.join(dst, "demo%d" % m))
    if os.path.exists(os.path.join(src, "meta%d.json" % n)):
        shutil.copy(os.path.join(src, "meta%d.json" % n), os.path.join(dst, "meta%d.json" % m))
print(dst)
