#!/usr/bin/env python3
"""Prints the markdown table 'which check catches which seeded change' from
seeded/*/meta.json (written by tools/confirm_seed.py)."""
import glob
import json
import os

ROOT = os.path.dirname(os.path.dirname(os.path.abspath(__file__)))
rows = []
for f in sorted(glob.glob(os.path.join(ROOT, "seeded", "C*", "meta.json"))):
    m = json.load(open(f))
    caught = [c for c, v in m.get("checks", {}).items() if v.get("caught")]
    missed = [c for c, v in m.get("checks", {}).items() if not v.get("caught")]
    sig = ""
    for c in caught:
        s = m["checks"][c].get("signatures") or []
        if s:
            sig = s[0].replace("signature: ", "")
            break
    suite = (m.get("existing_suite_with_batch_applied") or {}).get("summary", "")
    rows.append("| %s | %s | %s | %s | %s | demo %s->%s; %s |" % (
        m["id"], (m.get("summary") or "")[:140].replace("|", "/"), (m.get("needs") or "")[:110].replace("|", "/"),
        ", ".join(caught) or "-", ", ".join(missed) or "-", m.get("demo_unchanged_exit"), m.get("demo_changed_exit"),
        "suite passes" if "100% tests passed" in suite else suite[:30]))
import sys
table = "| seed | change | needs | caught by | not caught by | confirmation |\n|---|---|---|---|---|---|\n" + "\n".join(rows)
if "--design" in sys.argv:
    # regenerate the block between the markers of DESIGN.md section 11.6
    dp = os.path.join(ROOT, "DESIGN.md")
    d = open(dp).read()
    a, b = "<!-- seed-table:begin -->", "<!-- seed-table:end -->"
    i, j = d.index(a) + len(a), d.index(b)
    open(dp, "w").write(d[:i] + "\n" + table + "\n" + d[j:])
else:
    print(table)
