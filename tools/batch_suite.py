#!/usr/bin/env python3
"""The repository's own test suite with a batch of seeded changes applied
together (a scratch worktree of /repo under /tmp, removed afterwards).
usage: batch_suite.py <label> <seed id>...      e.g. batch_suite.py r4a C01_5 C03_5
Changes that do not apply on top of the earlier ones of the batch are left out
(and reported) - run them in another batch.  Records the result in each
applied seed's meta.json (existing_suite_with_batch_applied)."""
import json
import os
import subprocess
import sys

ROOT = os.path.dirname(os.path.dirname(os.path.abspath(__file__)))
label, ids = sys.argv[1], sys.argv[2:]
WT = "/tmp/seed-batch-%s" % label


def sh(cmd, **kw):
    return subprocess.run(cmd, shell=True, stdout=subprocess.PIPE, stderr=subprocess.STDOUT, text=True, **kw)


sh("git -C /repo worktree remove --force %s" % WT)
sh("git -C /repo worktree add --detach %s HEAD" % WT)
applied, skipped = [], []
for i in ids:
    p = os.path.join(ROOT, "seeded", i, "patch.diff")
    r = sh("git -C %s apply %s || git -C %s apply --3way %s" % (WT, p, WT, p))
    if r.returncode == 0 and "with conflicts" not in r.stdout:
        applied.append(i)
    else:
        sh("git -C %s reset -q --hard ; git -C %s clean -fdq -e _build" % (WT, WT))
        # re-apply what was applied so far (a failed 3-way may leave the tree dirty)
        for j in applied:
            q = os.path.join(ROOT, "seeded", j, "patch.diff")
            sh("git -C %s apply %s || git -C %s apply --3way %s" % (WT, q, WT, q))
        skipped.append(i)
print("applied:", applied, "skipped:", skipped, flush=True)
sh("cmake -G Ninja -S %s -B %s/_build -DCMAKE_BUILD_TYPE=RelWithDebInfo -DSBEPP_BUILD_TESTS=ON -DSBEPP_BUILD_SBEPPC=ON -DSBEPP_DEV_MODE=ON "
   "-DSBEPP_SEPARATE_TESTS=ON -Dfmt_DIR=/root/miniconda/lib/cmake/fmt -DGTest_DIR=/root/miniconda/lib/cmake/GTest "
   "-Dpugixml_DIR=/usr/lib/x86_64-linux-gnu/cmake/pugixml" % (WT, WT))
b = sh("cmake --build %s/_build -j%s" % (WT, os.environ.get("BATCH_J", "8")), timeout=7200)
t = sh("ctest --test-dir %s/_build -j6 --timeout 900" % WT, timeout=7200)
tail = [l for l in t.stdout.splitlines() if "tests passed" in l or "tests failed" in l]
suite = {"build_exit": b.returncode, "ctest_exit": t.returncode, "summary": tail[-1] if tail else (b.stdout[-300:] + t.stdout[-300:]),
         "batch": "%s: %s" % (label, " ".join(applied))}
print("SUITE:", json.dumps(suite), flush=True)
if b.returncode != 0:
    print(b.stdout[-3000:])
elif t.returncode != 0:
    print("\n".join(l for l in t.stdout.splitlines() if "Failed" in l or "***" in l)[:3000])
for i in applied:
    mp = os.path.join(ROOT, "seeded", i, "meta.json")
    m = json.load(open(mp))
    m["existing_suite_with_batch_applied"] = suite
    json.dump(m, open(mp, "w"), indent=1)
sh("git -C /repo worktree remove --force %s" % WT)
