// C16: interface between the generic replay driver (c16_optional.cpp, built
// once per compiler/standard) and the per-primitive operations TU
// (c16_ops.cpp, built per primitive / flavour mask / part mask).  Values cross
// it as exact text (decimal, C99 hex-float, inf, -inf, nan) only.
#pragma once
#include <string>
#include <vector>

namespace c16
{
struct pair_obs
{
    bool core = false, ord = false, tw_done = false; // which parts ran
    std::string value;    // a.value()
    std::string deref;    // *a
    bool hv = false, boolv = false, notv = false; // optional only
    std::string vor;                              // optional only
    bool inr = false, eq = false, ne = false;
    bool lt = false, le = false, gt = false, ge = false;
    std::string tw; // less / equal / greater / unordered
};

struct type_obs
{
    std::string min, max, null; // null: optional only
    std::string builtin_min, builtin_max, builtin_null;
};

const char* prim();
std::vector<std::string> flavours(); // compiled in
bool is_optional(const std::string& flavour);
int part_mask();
bool three_way();
long cplusplus();
// value text -> value of the primitive type -> canonical text
std::string canon(const std::string& text);
bool attrs(const std::string& flavour, type_obs& out);
// objects are made as `how` says: DEFAULT, NULLOPT or a value (text);
// way 0: T x{v}; / T x{}; / T x{nullopt};   way 1: T x; *x = v; / T x; / T x = nullopt;
bool eval(
    const std::string& flavour,
    const std::string& how_a,
    const std::string& aval,
    const std::string& how_b,
    const std::string& bval,
    int way,
    pair_obs& out);
} // namespace c16
