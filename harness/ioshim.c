/* ioshim.c - LD_PRELOAD fault-injection / call-logging shim for sbeppc runs
 * (properties C20, C09).  Build: gcc -O1 -shared -fPIC ioshim.c -o ioshim.so -ldl
 *
 * Environment
 *   VERIF_IO_ROOT     absolute path of the OUTPUT directory.  Calls whose path
 *                     is this directory or below it, and write/close calls on
 *                     descriptors opened there, form class "out".
 *   VERIF_IO_INROOT   (optional) absolute path of the INPUT directory.  Opens
 *                     below it and read/close on those descriptors form class
 *                     "in" (numbered separately).
 *   VERIF_IO_LOG      ndjson file, one event appended per intercepted call:
 *     {"ev":"sys","cls":"out","call":"write","path":"vle/types/a.hpp","k":7,
 *      "res":120,"errno":0,"len":120,"fd":3,"inj":""}
 *     k    1-based number of the call within its class (the fault position)
 *     res  return value (fd for opens, byte count for writes, 0/-1 otherwise)
 *     len  bytes requested (write/writev/pwrite/read), else 0
 *     inj  "" or the injected fault kind
 *   VERIF_IO_FAIL     "k:KIND"  the k-th call of class "out" fails.
 *   VERIF_IO_FAIL_IN  "k:KIND"  the k-th call of class "in" fails.
 *     KIND = ENOSPC | EACCES | EIO : the call is NOT performed, returns -1/NULL
 *            with that errno (close/fclose: the descriptor is really closed,
 *            the error is reported, like a failed deferred write-back).
 *     KIND = SHORT : write/writev/pwrite only: the first (len+1)/2 bytes are
 *            really written and that count is returned (no error; the caller
 *            has to complete the transfer).  Ignored for other calls.
 *
 * Interposed (what libstdc++'s basic_filebuf / std::filesystem use here:
 * fopen, fileno, write, writev, lseek, read, fclose, mkdir, stat; plus the
 * other ways a file could be created or removed): mkdir mkdirat open open64
 * openat openat64 creat creat64 fopen fopen64 write writev pwrite pwrite64
 * read close fclose rename unlink.
 * The shim never computes an expectation; it records and injects.
 */
#define _GNU_SOURCE
#include <dlfcn.h>
#include <errno.h>
#include <fcntl.h>
#include <limits.h>
#include <stdarg.h>
#include <stdio.h>
#include <stdlib.h>
#include <string.h>
#include <sys/stat.h>
#include <sys/types.h>
#include <sys/uio.h>
#include <unistd.h>

#define MAXFD 4096
enum { C_NONE = 0, C_OUT = 1, C_IN = 2 };

static int inited;
static char root_out[PATH_MAX], root_in[PATH_MAX];
static int log_fd = -1;
static long cnt[3];
static long fail_k[3];
static char fail_kind[3][16];
static unsigned char fd_cls[MAXFD];
static char *fd_path[MAXFD];

static int (*r_mkdir)(const char *, mode_t);
static int (*r_mkdirat)(int, const char *, mode_t);
static int (*r_open)(const char *, int, ...);
static int (*r_open64)(const char *, int, ...);
static int (*r_openat)(int, const char *, int, ...);
static int (*r_openat64)(int, const char *, int, ...);
static FILE *(*r_fopen)(const char *, const char *);
static FILE *(*r_fopen64)(const char *, const char *);
static ssize_t (*r_write)(int, const void *, size_t);
static ssize_t (*r_writev)(int, const struct iovec *, int);
static ssize_t (*r_pwrite)(int, const void *, size_t, off_t);
static ssize_t (*r_pwrite64)(int, const void *, size_t, off64_t);
static ssize_t (*r_read)(int, void *, size_t);
static int (*r_close)(int);
static int (*r_fclose)(FILE *);
static int (*r_rename)(const char *, const char *);
static int (*r_unlink)(const char *);

/* lexical normalisation of an absolute path: removes //, /./, /x/../ */
static void normalize(char *p)
{
    char out[PATH_MAX];
    size_t o = 0;
    const char *s = p;
    out[0] = 0;
    while (*s) {
        while (*s == '/') s++;
        if (!*s) break;
        const char *e = s;
        while (*e && *e != '/') e++;
        size_t n = (size_t)(e - s);
        if (n == 1 && s[0] == '.') {
        } else if (n == 2 && s[0] == '.' && s[1] == '.') {
            while (o > 0 && out[o - 1] != '/') o--;
            if (o > 0) o--;
        } else if (o + n + 2 < sizeof out) {
            out[o++] = '/';
            memcpy(out + o, s, n);
            o += n;
        }
        s = e;
    }
    if (o == 0) out[o++] = '/';
    out[o] = 0;
    strcpy(p, out);
}

static void absolutize(int dirfd, const char *path, char *out)
{
    out[0] = 0;
    if (!path) return;
    if (path[0] == '/') {
        snprintf(out, PATH_MAX, "%s", path);
    } else {
        char base[PATH_MAX];
        base[0] = 0;
        if (dirfd == AT_FDCWD) {
            if (!getcwd(base, sizeof base)) base[0] = 0;
        } else {
            char lnk[64];
            snprintf(lnk, sizeof lnk, "/proc/self/fd/%d", dirfd);
            ssize_t n = readlink(lnk, base, sizeof base - 1);
            base[n > 0 ? n : 0] = 0;
        }
        size_t nb = strlen(base), np = strlen(path);
        if (nb + np + 2 > PATH_MAX) { out[0] = 0; return; }
        memcpy(out, base, nb);
        out[nb] = '/';
        memcpy(out + nb + 1, path, np + 1);
    }
    normalize(out);
}

static void init(void)
{
    if (inited) return;
    inited = 1;
    r_mkdir = dlsym(RTLD_NEXT, "mkdir");
    r_mkdirat = dlsym(RTLD_NEXT, "mkdirat");
    r_open = dlsym(RTLD_NEXT, "open");
    r_open64 = dlsym(RTLD_NEXT, "open64");
    r_openat = dlsym(RTLD_NEXT, "openat");
    r_openat64 = dlsym(RTLD_NEXT, "openat64");
    r_fopen = dlsym(RTLD_NEXT, "fopen");
    r_fopen64 = dlsym(RTLD_NEXT, "fopen64");
    r_write = dlsym(RTLD_NEXT, "write");
    r_writev = dlsym(RTLD_NEXT, "writev");
    r_pwrite = dlsym(RTLD_NEXT, "pwrite");
    r_pwrite64 = dlsym(RTLD_NEXT, "pwrite64");
    r_read = dlsym(RTLD_NEXT, "read");
    r_close = dlsym(RTLD_NEXT, "close");
    r_fclose = dlsym(RTLD_NEXT, "fclose");
    r_rename = dlsym(RTLD_NEXT, "rename");
    r_unlink = dlsym(RTLD_NEXT, "unlink");
    const char *e;
    if ((e = getenv("VERIF_IO_ROOT")) && e[0] == '/') { snprintf(root_out, sizeof root_out, "%s", e); normalize(root_out); }
    if ((e = getenv("VERIF_IO_INROOT")) && e[0] == '/') { snprintf(root_in, sizeof root_in, "%s", e); normalize(root_in); }
    if ((e = getenv("VERIF_IO_LOG")) && e[0]) log_fd = r_open(e, O_WRONLY | O_APPEND | O_CREAT | O_CLOEXEC, 0644);
    const char *names[3] = {0, "VERIF_IO_FAIL", "VERIF_IO_FAIL_IN"};
    for (int c = 1; c <= 2; c++) {
        if ((e = getenv(names[c])) && e[0]) {
            char *colon = strchr(e, ':');
            if (colon) {
                fail_k[c] = strtol(e, 0, 10);
                snprintf(fail_kind[c], sizeof fail_kind[c], "%s", colon + 1);
            }
        }
    }
}

/* class of an absolute normalised path; *rel = path relative to its root */
static int classify(const char *abs, const char **rel)
{
    size_t n;
    if (root_out[0]) {
        n = strlen(root_out);
        if (strncmp(abs, root_out, n) == 0 && (abs[n] == 0 || abs[n] == '/')) {
            *rel = abs[n] ? abs + n + 1 : ".";
            return C_OUT;
        }
    }
    if (root_in[0]) {
        n = strlen(root_in);
        if (strncmp(abs, root_in, n) == 0 && (abs[n] == 0 || abs[n] == '/')) {
            *rel = abs[n] ? abs + n + 1 : ".";
            return C_IN;
        }
    }
    return C_NONE;
}

static int errno_of(const char *kind)
{
    if (!strcmp(kind, "ENOSPC")) return ENOSPC;
    if (!strcmp(kind, "EACCES")) return EACCES;
    if (!strcmp(kind, "EIO")) return EIO;
    return 0;
}

static void jstr(char *dst, size_t cap, const char *s)
{
    size_t o = 0;
    for (; s && *s && o + 8 < cap; s++) {
        unsigned char c = (unsigned char)*s;
        if (c == '"' || c == '\\') { dst[o++] = '\\'; dst[o++] = (char)c; }
        else if (c < 0x20) o += (size_t)snprintf(dst + o, cap - o, "\\u%04x", c);
        else dst[o++] = (char)c;
    }
    dst[o] = 0;
}

/* source path of a rename (relative to the output root when below it), "" for every other call */
static const char *ev_src = "";

static void log_event(int cls, const char *call, const char *rel, long k, long res, int err, long len, int fd, const char *inj)
{
    if (log_fd < 0) return;
    char p[PATH_MAX * 2], q[PATH_MAX * 2], line[PATH_MAX * 4 + 256];
    jstr(p, sizeof p, rel);
    jstr(q, sizeof q, ev_src);
    int n = snprintf(line, sizeof line,
                     "{\"ev\":\"sys\",\"cls\":\"%s\",\"call\":\"%s\",\"path\":\"%s\",\"src\":\"%s\",\"k\":%ld,\"res\":%ld,\"errno\":%d,\"len\":%ld,\"fd\":%d,\"inj\":\"%s\"}\n",
                     cls == C_OUT ? "out" : "in", call, p, q, k, res, err, len, fd, inj);
    if (n > 0) { ssize_t w = r_write(log_fd, line, (size_t)n); (void)w; }
}

/* begin one numbered call: returns the injected kind ("" if none) */
static const char *begin_call(int cls, long *k)
{
    *k = ++cnt[cls];
    if (fail_k[cls] == *k) return fail_kind[cls];
    return "";
}

static void track(int fd, int cls, const char *rel)
{
    if (fd < 0 || fd >= MAXFD) return;
    fd_cls[fd] = (unsigned char)cls;
    free(fd_path[fd]);
    fd_path[fd] = strdup(rel);
}

static void untrack(int fd)
{
    if (fd < 0 || fd >= MAXFD) return;
    fd_cls[fd] = C_NONE;
    free(fd_path[fd]);
    fd_path[fd] = 0;
}

static int tracked(int fd) { return (fd >= 0 && fd < MAXFD) ? fd_cls[fd] : C_NONE; }

/* -------------------------------------------------------------- mkdir --- */
static int do_mkdir(const char *call, int dirfd, const char *path, mode_t mode)
{
    init();
    char abs[PATH_MAX];
    const char *rel = "";
    absolutize(dirfd, path, abs);
    int cls = classify(abs, &rel);
    if (cls != C_OUT) return dirfd == AT_FDCWD ? r_mkdir(path, mode) : r_mkdirat(dirfd, path, mode);
    long k;
    const char *inj = begin_call(cls, &k);
    int e = errno_of(inj), res;
    if (e) { res = -1; errno = e; }
    else { inj = ""; res = dirfd == AT_FDCWD ? r_mkdir(path, mode) : r_mkdirat(dirfd, path, mode); e = res < 0 ? errno : 0; }
    log_event(cls, call, rel, k, res, e, 0, -1, inj);
    errno = e ? e : errno;
    return res;
}
int mkdir(const char *path, mode_t mode) { return do_mkdir("mkdir", AT_FDCWD, path, mode); }
int mkdirat(int dirfd, const char *path, mode_t mode) { return do_mkdir("mkdir", dirfd, path, mode); }

/* --------------------------------------------------------------- open --- */
typedef int (*open_fn)(const char *, int, ...);
typedef int (*openat_fn)(int, const char *, int, ...);

static int do_open(int dirfd, const char *path, int flags, mode_t mode, open_fn of, openat_fn oaf)
{
    init();
    char abs[PATH_MAX];
    const char *rel = "";
    absolutize(dirfd, path, abs);
    int cls = classify(abs, &rel);
    int writing = (flags & O_ACCMODE) != O_RDONLY || (flags & (O_CREAT | O_TRUNC));
    if (cls == C_NONE || (cls == C_IN && writing))
        return of ? of(path, flags, mode) : oaf(dirfd, path, flags, mode);
    long k;
    const char *inj = begin_call(cls, &k);
    int e = errno_of(inj), res;
    if (e) { res = -1; }
    else { inj = ""; res = of ? of(path, flags, mode) : oaf(dirfd, path, flags, mode); e = res < 0 ? errno : 0; }
    if (res >= 0) track(res, cls, rel);
    log_event(cls, "open", rel, k, res, e, 0, res, inj);
    if (e) errno = e;
    return res;
}
#define GET_MODE mode_t mode = 0; if (flags & (O_CREAT | O_TMPFILE)) { va_list ap; va_start(ap, flags); mode = (mode_t)va_arg(ap, int); va_end(ap); }
int open(const char *path, int flags, ...) { GET_MODE; init(); return do_open(AT_FDCWD, path, flags, mode, r_open, 0); }
int open64(const char *path, int flags, ...) { GET_MODE; init(); return do_open(AT_FDCWD, path, flags, mode, r_open64 ? r_open64 : r_open, 0); }
int openat(int dirfd, const char *path, int flags, ...) { GET_MODE; init(); return do_open(dirfd, path, flags, mode, 0, r_openat); }
int openat64(int dirfd, const char *path, int flags, ...) { GET_MODE; init(); return do_open(dirfd, path, flags, mode, 0, r_openat64 ? r_openat64 : r_openat); }
int creat(const char *path, mode_t mode) { init(); return do_open(AT_FDCWD, path, O_CREAT | O_WRONLY | O_TRUNC, mode, r_open, 0); }
int creat64(const char *path, mode_t mode) { init(); return do_open(AT_FDCWD, path, O_CREAT | O_WRONLY | O_TRUNC, mode, r_open64 ? r_open64 : r_open, 0); }

static FILE *do_fopen(const char *path, const char *mode, FILE *(*f)(const char *, const char *))
{
    init();
    char abs[PATH_MAX];
    const char *rel = "";
    absolutize(AT_FDCWD, path, abs);
    int cls = classify(abs, &rel);
    int writing = mode && (strchr(mode, 'w') || strchr(mode, 'a') || strchr(mode, '+'));
    if (cls == C_NONE || (cls == C_IN && writing)) return f(path, mode);
    long k;
    const char *inj = begin_call(cls, &k);
    int e = errno_of(inj), fd = -1;
    FILE *fp = 0;
    if (!e) { inj = ""; fp = f(path, mode); e = fp ? 0 : errno; fd = fp ? fileno(fp) : -1; }
    if (fd >= 0) track(fd, cls, rel);
    log_event(cls, "open", rel, k, fd, e, 0, fd, inj);
    if (e) errno = e;
    return fp;
}
FILE *fopen(const char *path, const char *mode) { init(); return do_fopen(path, mode, r_fopen); }
FILE *fopen64(const char *path, const char *mode) { init(); return do_fopen(path, mode, r_fopen64 ? r_fopen64 : r_fopen); }

/* -------------------------------------------------------------- write --- */
ssize_t write(int fd, const void *buf, size_t n)
{
    init();
    int cls = tracked(fd);
    if (cls != C_OUT) return r_write(fd, buf, n);
    long k;
    const char *inj = begin_call(cls, &k);
    int e = errno_of(inj);
    ssize_t res;
    if (e) res = -1;
    else if (!strcmp(inj, "SHORT") && n > 0) { res = r_write(fd, buf, (n + 1) / 2); e = res < 0 ? errno : 0; }
    else { inj = ""; res = r_write(fd, buf, n); e = res < 0 ? errno : 0; }
    log_event(cls, "write", fd_path[fd], k, (long)res, e, (long)n, fd, inj);
    if (e) errno = e;
    return res;
}

ssize_t writev(int fd, const struct iovec *iov, int cntv)
{
    init();
    int cls = tracked(fd);
    if (cls != C_OUT) return r_writev(fd, iov, cntv);
    size_t n = 0;
    for (int i = 0; i < cntv; i++) n += iov[i].iov_len;
    long k;
    const char *inj = begin_call(cls, &k);
    int e = errno_of(inj);
    ssize_t res;
    if (e) res = -1;
    else if (!strcmp(inj, "SHORT") && n > 0 && cntv <= 64) {
        struct iovec cut[64];
        size_t want = (n + 1) / 2;
        int m = 0;
        for (int i = 0; i < cntv && want > 0; i++) {
            cut[m] = iov[i];
            if (cut[m].iov_len > want) cut[m].iov_len = want;
            want -= cut[m].iov_len;
            m++;
        }
        res = r_writev(fd, cut, m);
        e = res < 0 ? errno : 0;
    } else { inj = ""; res = r_writev(fd, iov, cntv); e = res < 0 ? errno : 0; }
    log_event(cls, "write", fd_path[fd], k, (long)res, e, (long)n, fd, inj);
    if (e) errno = e;
    return res;
}

static ssize_t do_pwrite(int fd, const void *buf, size_t n, off64_t off, int is64)
{
    init();
    int cls = tracked(fd);
    if (cls != C_OUT) return is64 ? r_pwrite64(fd, buf, n, off) : r_pwrite(fd, buf, n, (off_t)off);
    long k;
    const char *inj = begin_call(cls, &k);
    int e = errno_of(inj);
    size_t m = n;
    if (!e && !strcmp(inj, "SHORT") && n > 0) m = (n + 1) / 2;
    else if (!e) inj = "";
    ssize_t res = -1;
    if (!e) { res = is64 ? r_pwrite64(fd, buf, m, off) : r_pwrite(fd, buf, m, (off_t)off); e = res < 0 ? errno : 0; }
    log_event(cls, "write", fd_path[fd], k, (long)res, e, (long)n, fd, inj);
    if (e) errno = e;
    return res;
}
ssize_t pwrite(int fd, const void *buf, size_t n, off_t off) { return do_pwrite(fd, buf, n, off, 0); }
ssize_t pwrite64(int fd, const void *buf, size_t n, off64_t off) { return do_pwrite(fd, buf, n, off, 1); }

/* --------------------------------------------------------------- read --- */
ssize_t read(int fd, void *buf, size_t n)
{
    init();
    int cls = tracked(fd);
    if (cls != C_IN) return r_read(fd, buf, n);
    long k;
    const char *inj = begin_call(cls, &k);
    int e = errno_of(inj);
    ssize_t res = -1;
    if (!e) { inj = ""; res = r_read(fd, buf, n); e = res < 0 ? errno : 0; }
    log_event(cls, "read", fd_path[fd], k, (long)res, e, (long)n, fd, inj);
    if (e) errno = e;
    return res;
}

/* -------------------------------------------------------------- close --- */
int close(int fd)
{
    init();
    int cls = tracked(fd);
    if (cls == C_NONE) return r_close(fd);
    long k;
    const char *inj = begin_call(cls, &k);
    int e = errno_of(inj);
    int res = r_close(fd);
    if (e) res = -1;
    else { inj = ""; e = res < 0 ? errno : 0; }
    log_event(cls, "close", fd_path[fd], k, res, e, 0, fd, inj);
    untrack(fd);
    if (e) errno = e;
    return res;
}

int fclose(FILE *fp)
{
    init();
    int fd = fp ? fileno(fp) : -1;
    int cls = tracked(fd);
    if (cls == C_NONE) return r_fclose(fp);
    long k;
    const char *inj = begin_call(cls, &k);
    int e = errno_of(inj);
    int res = r_fclose(fp);
    if (e) res = EOF;
    else { inj = ""; e = res != 0 ? errno : 0; }
    log_event(cls, "close", fd_path[fd], k, res == 0 ? 0 : -1, e, 0, fd, inj);
    untrack(fd);
    if (e) errno = e;
    return res;
}

/* ----------------------------------------------------- rename / unlink --- */
int rename(const char *from, const char *to)
{
    init();
    char abs[PATH_MAX];
    const char *rel = "";
    absolutize(AT_FDCWD, to, abs);
    int cls = classify(abs, &rel);
    if (cls != C_OUT) return r_rename(from, to);
    long k;
    const char *inj = begin_call(cls, &k);
    int e = errno_of(inj), res = -1;
    if (!e) { inj = ""; res = r_rename(from, to); e = res < 0 ? errno : 0; }
    char abs_from[PATH_MAX];
    const char *rel_from = "";
    absolutize(AT_FDCWD, from, abs_from);
    if (classify(abs_from, &rel_from) != C_OUT) rel_from = from;
    char src_copy[PATH_MAX];
    snprintf(src_copy, sizeof src_copy, "%s", rel_from);   /* classify() may hand out a static buffer */
    ev_src = src_copy;
    log_event(cls, "rename", rel, k, res, e, 0, -1, inj);
    ev_src = "";
    if (e) errno = e;
    return res;
}

static int do_unlink(const char *path);
int remove(const char *path)
{
    init();
    struct stat st;
    if (lstat(path, &st) == 0 && S_ISDIR(st.st_mode)) return rmdir(path);
    return do_unlink(path);
}

int unlink(const char *path) { return do_unlink(path); }

static int do_unlink(const char *path)
{
    init();
    char abs[PATH_MAX];
    const char *rel = "";
    absolutize(AT_FDCWD, path, abs);
    int cls = classify(abs, &rel);
    if (cls != C_OUT) return r_unlink(path);
    long k;
    const char *inj = begin_call(cls, &k);
    int e = errno_of(inj), res = -1;
    if (!e) { inj = ""; res = r_unlink(path); e = res < 0 ? errno : 0; }
    log_event(cls, "unlink", rel, k, res, e, 0, -1, inj);
    if (e) errno = e;
    return res;
}
