// C16 operations TU: everything that touches the types under test (built-in
// and sbeppc-generated required/optional scalars of ONE primitive type).
// Built with -DC16_PRIM=<prim> [-DC16_FLAVOUR_MASK=..] [-DC16_PART_MASK=..],
// see c16_types.hpp.  It only *observes*: no expectation lives here.
//
// Tokens reach this file as exact value text and are turned into values by
// strtoll/strtoull/strtof/strtod - never through min_value()/max_value()/
// null_value() of the types under test.
#include "c16_types.hpp"
#include "c16_api.hpp"

#include <cerrno>
#include <cstdio>
#include <cstdlib>
#include <cstring>
#include <limits>
#include <type_traits>

namespace
{
const char* const prim_name = C16_STR(C16_PRIM);

template<typename T>
typename std::enable_if<std::is_floating_point<T>::value, T>::type
    parse(const std::string& s)
{
    if(s == "nan")
        return std::numeric_limits<T>::quiet_NaN();
    if(s == "inf")
        return std::numeric_limits<T>::infinity();
    if(s == "-inf")
        return -std::numeric_limits<T>::infinity();
    char* e = nullptr;
    errno = 0;
    const T v = std::is_same<T, float>::value
                    ? static_cast<T>(std::strtof(s.c_str(), &e))
                    : static_cast<T>(std::strtod(s.c_str(), &e));
    if(s.empty() || *e || errno == ERANGE)
    {
        std::fprintf(stderr, "bad FP value text '%s'\n", s.c_str());
        std::exit(3);
    }
    return v;
}

template<typename T>
typename std::enable_if<
    std::is_integral<T>::value && std::is_signed<T>::value,
    T>::type
    parse(const std::string& s)
{
    char* e = nullptr;
    errno = 0;
    const long long v = std::strtoll(s.c_str(), &e, 10);
    if(s.empty() || *e || errno == ERANGE
       || v < static_cast<long long>(std::numeric_limits<T>::min())
       || v > static_cast<long long>(std::numeric_limits<T>::max()))
    {
        std::fprintf(
            stderr, "value text '%s' does not fit %s\n", s.c_str(), prim_name);
        std::exit(3);
    }
    return static_cast<T>(v);
}

template<typename T>
typename std::enable_if<
    std::is_integral<T>::value && !std::is_signed<T>::value,
    T>::type
    parse(const std::string& s)
{
    char* e = nullptr;
    errno = 0;
    const unsigned long long v = std::strtoull(s.c_str(), &e, 10);
    if(s.empty() || *e || errno == ERANGE || s[0] == '-'
       || v > static_cast<unsigned long long>(std::numeric_limits<T>::max()))
    {
        std::fprintf(
            stderr, "value text '%s' does not fit %s\n", s.c_str(), prim_name);
        std::exit(3);
    }
    return static_cast<T>(v);
}

// canonical exact text: decimal; %a (sign of zero kept); inf, -inf; nan for
// every NaN
template<typename T>
typename std::enable_if<std::is_floating_point<T>::value, std::string>::type
    show(T v)
{
    if(v != v)
        return "nan";
    if(v == std::numeric_limits<T>::infinity())
        return "inf";
    if(v == -std::numeric_limits<T>::infinity())
        return "-inf";
    char buf[64];
    std::snprintf(buf, sizeof(buf), "%a", static_cast<double>(v));
    return buf;
}

template<typename T>
typename std::enable_if<std::is_integral<T>::value, std::string>::type show(T v)
{
    return std::is_signed<T>::value
               ? std::to_string(static_cast<long long>(v))
               : std::to_string(static_cast<unsigned long long>(v));
}

template<typename S>
S make(const std::string& how, typename S::value_type val, int way, std::true_type)
{
    if(how == "DEFAULT")
    {
        if(way == 0)
        {
            S x{};
            return x;
        }
        S x;
        return x;
    }
    if(how == "NULLOPT")
    {
        if(way == 0)
        {
            S x{sbepp::nullopt};
            return x;
        }
        S x = sbepp::nullopt;
        return x;
    }
    if(way == 0)
    {
        S x{val};
        return x;
    }
    S x;
    *x = val;
    return x;
}

template<typename S>
S make(const std::string& how, typename S::value_type val, int way, std::false_type)
{
    if(how == "DEFAULT")
    {
        if(way == 0)
        {
            S x{};
            return x;
        }
        S x;
        return x;
    }
    if(way == 0)
    {
        S x{val};
        return x;
    }
    S x;
    *x = val;
    return x;
}

#if C16_CORE
template<typename S>
void optional_core(
    const S& x, typename S::value_type bv, c16::pair_obs& o, std::true_type)
{
    o.hv = x.has_value();
    o.boolv = static_cast<bool>(x);
    o.notv = !x;
    o.vor = show(x.value_or(bv));
}

template<typename S>
void optional_core(
    const S&, typename S::value_type, c16::pair_obs&, std::false_type)
{
}
#endif

#if C16_TW
template<typename O>
const char* ordering_name(O o)
{
    return o == 0 ? "equal" : o < 0 ? "less" : o > 0 ? "greater" : "unordered";
}
#endif

template<typename S, bool Opt>
void eval_pair(
    const std::string& ha,
    const std::string& at,
    const std::string& hb,
    const std::string& bt,
    int way,
    c16::pair_obs& o)
{
    using T = typename S::value_type;
    using opt_t = std::integral_constant<bool, Opt>;
    const T av = parse<T>(at);
    const T bv = parse<T>(bt);
    const S x = make<S>(ha, av, way, opt_t{});
    const S y = make<S>(hb, bv, way, opt_t{});
#if C16_CORE
    o.core = true;
    o.value = show(x.value());
    o.deref = show(*x);
    optional_core(x, bv, o, opt_t{});
    o.inr = x.in_range();
    o.eq = (x == y);
    o.ne = (x != y);
#endif
#if C16_ORD
    o.ord = true;
    o.lt = (x < y);
    o.le = (x <= y);
    o.gt = (x > y);
    o.ge = (x >= y);
#endif
#if C16_TW
    o.tw_done = true;
    o.tw = ordering_name(x <=> y);
#endif
    (void)y;
    (void)bv;
}

template<typename S>
std::string null_of(std::true_type)
{
    return show(S::null_value());
}
template<typename S>
std::string null_of(std::false_type)
{
    return "";
}

template<bool Opt>
struct builtin_of
{
    using type = sbepp::C16_CAT(C16_PRIM, _t);
};
template<>
struct builtin_of<true>
{
    using type = sbepp::C16_CAT(C16_PRIM, _opt_t);
};

template<typename S, bool Opt>
void type_attrs(c16::type_obs& o)
{
    using opt_t = std::integral_constant<bool, Opt>;
    using B = typename builtin_of<Opt>::type;
    o.min = show(S::min_value());
    o.max = show(S::max_value());
    o.null = null_of<S>(opt_t{});
    o.builtin_min = show(B::min_value());
    o.builtin_max = show(B::max_value());
    o.builtin_null = null_of<B>(opt_t{});
}
} // namespace

// index, flavour name (Optional.tla:Flavours), optional?
#define C16_DISPATCH(X)                                     \
    C16_IF0(X(builtin_req, false))                          \
    C16_IF1(X(builtin_opt, true))                           \
    C16_IF2(X(def_req, false))                              \
    C16_IF3(X(def_opt, true))                               \
    C16_IF4(X(expA_req, false))                             \
    C16_IF5(X(expA_opt, true))                              \
    C16_IF6(X(expB_req, false))                             \
    C16_IF7(X(expB_opt, true))                              \
    C16_IF8(X(expC_opt, true))                              \
    C16_IF9(X(expD_req, false))

#if C16_HAS(0)
#    define C16_IF0(x) x
#else
#    define C16_IF0(x)
#endif
#if C16_HAS(1)
#    define C16_IF1(x) x
#else
#    define C16_IF1(x)
#endif
#if C16_HAS(2)
#    define C16_IF2(x) x
#else
#    define C16_IF2(x)
#endif
#if C16_HAS(3)
#    define C16_IF3(x) x
#else
#    define C16_IF3(x)
#endif
#if C16_HAS(4)
#    define C16_IF4(x) x
#else
#    define C16_IF4(x)
#endif
#if C16_HAS(5)
#    define C16_IF5(x) x
#else
#    define C16_IF5(x)
#endif
#if C16_HAS(6)
#    define C16_IF6(x) x
#else
#    define C16_IF6(x)
#endif
#if C16_HAS(7)
#    define C16_IF7(x) x
#else
#    define C16_IF7(x)
#endif
#if C16_HAS(8)
#    define C16_IF8(x) x
#else
#    define C16_IF8(x)
#endif
#if C16_HAS(9)
#    define C16_IF9(x) x
#else
#    define C16_IF9(x)
#endif

namespace c16
{
const char* prim()
{
    return prim_name;
}

std::vector<std::string> flavours()
{
    std::vector<std::string> r;
#define C16_X(f, o) r.push_back(#f);
    C16_DISPATCH(C16_X)
#undef C16_X
    return r;
}

bool is_optional(const std::string& flavour)
{
#define C16_X(f, o) \
    if(flavour == #f) \
        return o;
    C16_DISPATCH(C16_X)
#undef C16_X
    return false;
}

int part_mask()
{
    return C16_PART_MASK;
}

bool three_way()
{
    return static_cast<bool>(C16_TW);
}

long cplusplus()
{
    return static_cast<long>(__cplusplus);
}

std::string canon(const std::string& text)
{
    using T = sbepp::C16_CAT(C16_PRIM, _t)::value_type;
    return show(parse<T>(text));
}

bool attrs(const std::string& flavour, type_obs& out)
{
#define C16_X(f, o)                \
    if(flavour == #f)              \
    {                              \
        type_attrs<T_##f, o>(out); \
        return true;               \
    }
    C16_DISPATCH(C16_X)
#undef C16_X
    (void)out;
    return false;
}

bool eval(
    const std::string& flavour,
    const std::string& how_a,
    const std::string& aval,
    const std::string& how_b,
    const std::string& bval,
    int way,
    pair_obs& out)
{
#define C16_X(f, o)                                              \
    if(flavour == #f)                                            \
    {                                                            \
        eval_pair<T_##f, o>(how_a, aval, how_b, bval, way, out); \
        return true;                                             \
    }
    C16_DISPATCH(C16_X)
#undef C16_X
    (void)how_a, (void)aval, (void)how_b, (void)bval, (void)way, (void)out;
    return false;
}
} // namespace c16
