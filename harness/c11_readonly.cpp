// C11, dynamic half: no getter, size query, iterator, cursor getter or visit
// call ever writes to the buffer.
//
// Every decode vector (an SBE image emitted by TLC from View.tla) is mapped
// PROT_READ, end-aligned against a PROT_NONE guard page, and walked through
// `message<const char>`: every named getter, get_by_tag, size_bytes,
// size_bytes_checked, group iteration (begin/end/++/[]/front/back), data and
// array element access, cursor-based getters (init_const_cursor + plain, init,
// dont_move, init_dont_move, skip wrappers, by name and by tag), sbepp::visit
// and visit_children with a visitor that changes nothing.  The walker is
// generated (tools/capsgen.py:WalkGen, names only).  A fault whose address lies
// in the read-only pages - or any write fault - is a write attempt.
//
// build: -DC11_WALKER="\"<generated walker>\"" -I<generated headers> [-DC11_ASSERTS]
// usage: c11_readonly replay <schema> <vectors.ndjson> | selftest
#ifdef C11_ASSERTS
#    define SBEPP_ENABLE_ASSERTS_WITH_HANDLER
#endif
#include "view_harness.hpp"

#include <ucontext.h>

namespace vh
{
sigjmp_buf g_jmp;
volatile int g_asserted;
volatile int g_segv;
volatile int g_armed;
const char* volatile g_assert_expr;
volatile long g_assert_line;
} // namespace vh

#ifdef C11_ASSERTS
namespace sbepp
{
[[noreturn]] void assertion_failed(
    char const* expr, char const*, char const*, long line)
{
    vh::g_asserted = 1;
    vh::g_assert_expr = expr;
    vh::g_assert_line = line;
    if(vh::g_armed)
    {
        siglongjmp(vh::g_jmp, 1);
    }
    std::fprintf(stderr, "assertion outside guarded call: %s\n", expr);
    _exit(98);
}
} // namespace sbepp
#endif

namespace c11h
{
volatile std::uint64_t g_calls;          // non-mutating calls performed
volatile std::uint64_t g_acc;            // keeps results alive
const char* volatile g_stage = "";       // where the walker is
volatile int g_write;                    // the fault was a write
char* volatile g_fault;                  // faulting address
char* volatile g_ro_begin;               // read-only part of the current region
char* volatile g_ro_end;

inline void count(std::uint64_t n = 1)
{
    g_calls = g_calls + n;
}

template<typename T>
void sink(const T& v)
{
    unsigned char b[sizeof(T)];
    std::memcpy(b, &v, sizeof(T));
    std::uint64_t a = g_acc;
    for(std::size_t i = 0; i < sizeof(T); i++)
        a = a * 131 + b[i];
    g_acc = a;
    count();
}

static void on_fault(int, siginfo_t* si, void* ctx)
{
    char* a = static_cast<char*>(si->si_addr);
    g_fault = a;
    bool w = a >= g_ro_begin && a < g_ro_end; // reads of PROT_READ pages cannot fault
#if defined(__x86_64__) && defined(REG_ERR)
    w = w || ((static_cast<ucontext_t*>(ctx)->uc_mcontext.gregs[REG_ERR] & 2) != 0);
#else
    (void)ctx;
#endif
    g_write = w ? 1 : 0;
    if(vh::g_armed)
    {
        vh::g_segv = 1;
        siglongjmp(vh::g_jmp, 2);
    }
    _exit(99);
}

static void install()
{
    struct sigaction sa;
    std::memset(&sa, 0, sizeof(sa));
    sa.sa_sigaction = on_fault;
    sa.sa_flags = SA_SIGINFO | SA_NODEFER;
    sigaction(SIGSEGV, &sa, nullptr);
    sigaction(SIGBUS, &sa, nullptr);
}

// ---- a visitor that descends everywhere, reads every value, changes nothing
struct visitor
{
    template<class T, class C, class... Tag>
    void on_message(T m, C& c, Tag...)
    {
        count();
        ::sbepp::visit_children(m, c, *this);
    }
    template<class T, class C, class... Tag>
    bool on_group(T g, C& c, Tag...)
    {
        count();
        ::sbepp::visit_children(g, c, *this);
        return false;
    }
    template<class T, class C, class... Tag>
    bool on_entry(T e, C& c, Tag...)
    {
        count();
        ::sbepp::visit_children(e, c, *this);
        return false;
    }
    template<class T, class... Tag>
    bool on_composite(T c, Tag...)
    {
        count();
        ::sbepp::visit_children(c, *this);
        return false;
    }
    template<class T, class... Tag>
    bool on_data(T d, Tag...)
    {
        for(auto it = d.begin(); it != d.end(); ++it)
            sink(*it);
        return false;
    }
    template<class T, class... Tag>
    typename std::enable_if<::sbepp::is_array_type<T>::value, bool>::type
        on_field(T a, Tag...)
    {
        for(auto it = a.begin(); it != a.end(); ++it)
            sink(*it);
        return false;
    }
    template<class T, class... Tag>
    typename std::enable_if<::sbepp::is_composite<T>::value, bool>::type
        on_field(T c, Tag...)
    {
        count();
        ::sbepp::visit(c, *this);
        return false;
    }
    template<class T, class... Tag>
    typename std::enable_if<
        !::sbepp::is_array_type<T>::value && !::sbepp::is_composite<T>::value,
        bool>::type
        on_field(T v, Tag...)
    {
        sink(v);
        return false;
    }
    template<class T, class... Tag>
    typename std::enable_if<::sbepp::is_array_type<T>::value, bool>::type
        on_type(T a, Tag...)
    {
        for(auto it = a.begin(); it != a.end(); ++it)
            sink(*it);
        return false;
    }
    template<class T, class... Tag>
    typename std::enable_if<!::sbepp::is_array_type<T>::value, bool>::type
        on_type(T v, Tag...)
    {
        sink(v);
        return false;
    }
    template<class T, class... Tag>
    bool on_enum(T v, Tag...)
    {
        sink(v);
        return false;
    }
    template<class T, class... Tag>
    bool on_set(T v, Tag...)
    {
        sink(v);
        return false;
    }
};

template<class V>
void view_common(V v)
{
    sink(::sbepp::size_bytes(v));
    sink(::sbepp::addressof(v));
}

template<class V>
void visit_both(V v)
{
    visitor vis;
    ::sbepp::visit(v, vis);
    ::sbepp::visit_children(v, vis);
    count(2);
}

template<class A>
void elements(A a)
{
    const std::size_t n = static_cast<std::size_t>(a.size());
    sink(n);
    sink(a.empty());
    sink(a.max_size());
    for(std::size_t i = 0; i < n; i++)
        sink(a[static_cast<typename A::size_type>(i)]);
    for(auto it = a.begin(); it != a.end(); ++it)
        sink(*it);
    for(auto it = a.rbegin(); it != a.rend(); ++it)
        sink(*it);
    sink(a.data());
    if(n)
    {
        sink(a.front());
        sink(a.back());
        sink(*a.data());
    }
    auto r = a.raw();
    sink(r.size());
    for(auto it = r.begin(); it != r.end(); ++it)
        sink(*it);
    view_common(a);
}

template<class A>
void array_all(A a)
{
    elements(a);
    sink(a.strlen());
    sink(a.strlen_r());
}

template<class D>
void data_all(D d)
{
    elements(d);
    sink(d.sbe_size());
}

template<class G>
void group_all(G g)
{
    sink(g.size());
    sink(g.sbe_size());
    // (not g.empty(): a group class may itself be NAMED empty - a C07 matter)
    sink(g.max_size());
    view_common(g);
    auto h = ::sbepp::get_header(g);
    sink(h.blockLength());
    sink(h.numInGroup());
    view_common(h);
    sink(g.begin() == g.end());
    sink(g.begin() != g.end());
    if(g.size())
    {
        view_common(g.front());
        view_common(*g.begin());
        view_common(*g.begin().operator->().operator->());
        auto it = g.begin();
        auto old = it++;
        sink(old == g.begin());
    }
    {
        visitor vis;
        ::sbepp::visit(g, vis);
        ::sbepp::visit_children(g, vis);
        auto c = ::sbepp::init_const_cursor(g);
        ::sbepp::visit(g, c, vis);
        auto c2 = ::sbepp::init_const_cursor(g);
        ::sbepp::visit_children(g, c2, vis);
        count(4);
    }
    {
        visitor vis;
        auto c = ::sbepp::init_const_cursor(g);
        for(const auto e : g.cursor_range(c))
        {
            ::sbepp::visit_children(e, c, vis);
            count();
        }
        auto c3 = ::sbepp::init_const_cursor(g);
        sink(g.cursor_begin(c3) == g.cursor_end(c3));
    }
    const auto sz = ::sbepp::size_bytes(g);
    const auto r = ::sbepp::size_bytes_checked(g, sz);
    sink(r.valid);
    sink(r.size);
    if(sz)
        sink(::sbepp::size_bytes_checked(g, sz - 1).valid);
}

template<class G>
void flat_group_all(G g)
{
    typedef typename G::size_type st;
    typedef typename G::difference_type dt;
    const st n = g.size();
    for(st i = 0; i < n; i++)
    {
        view_common(g[i]);
        view_common(g.begin()[static_cast<dt>(i)]);
        view_common(*(g.begin() + static_cast<dt>(i)));
    }
    if(n)
    {
        view_common(g.back());
        auto it = g.end();
        --it;
        view_common(*it);
        it--;
        it += 1;
        it -= 1;
        sink(g.end() - g.begin());
        sink(g.begin() < g.end());
        sink(g.begin() <= g.end());
        sink(g.begin() > g.end());
        sink(g.begin() >= g.end());
        view_common(*(1 + g.begin() - 1));
    }
}

template<class M>
void message_all(M m, std::size_t n)
{
    view_common(m);
    auto h = ::sbepp::get_header(m);
    view_common(h);
    visit_both(h);
    const auto r = ::sbepp::size_bytes_checked(m, n);
    sink(r.valid);
    sink(r.size);
    for(std::size_t k = 0; k < n; k += (n / 7 + 1))
        sink(::sbepp::size_bytes_checked(m, k).valid);
    visitor vis;
    ::sbepp::visit(m, vis);
    ::sbepp::visit_children(m, vis);
    auto c = ::sbepp::init_const_cursor(m);
    ::sbepp::visit(m, c, vis);
    auto c2 = ::sbepp::init_const_cursor(m);
    ::sbepp::visit_children(m, c2, vis);
    count(4);
}

typedef void (*walk_fn)(const char*, std::size_t);
struct walkers
{
    walk_fn fn[5];
};
inline std::map<std::string, walkers>& registry()
{
    static std::map<std::string, walkers> r;
    return r;
}
struct reg
{
    reg(const char* k, walk_fn a, walk_fn b, walk_fn c, walk_fn d, walk_fn e)
    {
        walkers w = {{a, b, c, d, e}};
        registry()[k] = w;
    }
};
} // namespace c11h

#define C11_STAGE(s) ::c11h::g_stage = s
#define C11_COUNT() ::c11h::count()
#define C11_SINK(e) ::c11h::sink(e)
// result may be a view or void: evaluate and count
#define C11_SINKV(e) ((void)(e), ::c11h::count())
#define C11_REG(K, A, B, C, D, E) static ::c11h::reg c11_reg_##A(K, A, B, C, D, E)

#ifdef C11_WALKER
#    include C11_WALKER
#endif

using namespace vh;

static const char* const PASS[5] = {"named", "cursor-plain", "cursor-init", "cursor-skip", "cursor-tag"};

int main(int argc, char** argv)
{
    c11h::install();
    if(argc >= 2 && std::string(argv[1]) == "selftest")
    {
        // the detector must see a write to a read-only mapping, and tell it
        // from a read beyond the view
        region reg(64, true);
        bytes b(64, 7);
        reg.load(b);
        reg.readonly();
        c11h::g_ro_begin = reg.data() - (reinterpret_cast<std::uintptr_t>(reg.data()) % 4096);
        c11h::g_ro_end = reg.data() + 64;
        char* volatile p = reg.data();
        int seen_write = 0, seen_read = 0, clean = 0;
        if(!guarded([&] { p[3] = 1; }))
            seen_write = c11h::g_write;
        volatile char sinkc = 0;
        if(!guarded([&] { sinkc = p[64]; }))
            seen_read = c11h::g_write ? 0 : 1;
        if(guarded([&] { sinkc = p[63]; }))
            clean = 1;
        (void)sinkc;
        std::printf("SELFTEST write=%d read_oob=%d clean=%d\n", seen_write, seen_read, clean);
        return seen_write && seen_read && clean ? 0 : 1;
    }
#ifdef C11_WALKER
    if(argc >= 4 && std::string(argv[1]) == "replay")
    {
        report rep;
        const std::string schema = argv[2];
        std::uint64_t images = 0, other_traps = 0;
        json traps = json::array();
        for_each_line(
            argv[3],
            [&](const json& v)
            {
                if(v["kind"].get<std::string>() != "decode")
                    return;
                const std::string msg = v["msg"].get<std::string>();
                const std::size_t v0 = v["v0"].get<std::size_t>();
                const std::size_t size = v["size"].get<std::size_t>();
                bytes all = to_bytes(v["buf"]);
                all.resize(v0 + size);
                region reg(all.size(), true);
                reg.load(all);
                reg.readonly();
                const std::uintptr_t pg = 4096;
                c11h::g_ro_begin = reg.data() - (reinterpret_cast<std::uintptr_t>(reg.data()) % pg);
                c11h::g_ro_end = reg.data() + all.size();
                const char* p = reg.data() + v0;
                images++;
                rep.note_distinct(msg + hex(all));
                const auto& w = c11h::registry().at(msg);
                for(int k = 0; k < 5; k++)
                {
                    const std::uint64_t before = c11h::g_calls;
                    c11h::g_write = 0;
                    c11h::g_stage = "";
                    const bool ok = guarded([&] { w.fn[k](p, size); });
                    const std::uint64_t calls = c11h::g_calls - before;
                    rep.evaluations += calls;
                    rep.per_kind[PASS[k]] += calls;
                    if(ok && reg.dump() == all)
                        continue;
                    json cs = {{"schema", schema}, {"msg", msg}, {"pass", PASS[k]},
                               {"stage", std::string(c11h::g_stage)}, {"image", hex(all)},
                               {"v0", v0}, {"size", size}};
                    if(!ok && g_segv && c11h::g_write)
                    {
                        cs["fault_offset"] = static_cast<long>(c11h::g_fault - reg.data());
                        rep.mismatch(
                            "dyn/write/" + schema + ":" + msg + "/" + PASS[k],
                            std::string("a non-mutating call on a const view wrote to the read-only buffer at ")
                                + c11h::g_stage + " (fault at region offset "
                                + std::to_string(c11h::g_fault - reg.data()) + ")",
                            cs);
                    }
                    else if(ok)
                    {
                        rep.mismatch(
                            "dyn/changed/" + schema + ":" + msg + "/" + PASS[k],
                            "buffer contents changed under a read-only walk", cs);
                    }
                    else
                    {
                        // a read beyond the view or an assertion: not a write
                        other_traps++;
                        if(traps.size() < 10)
                        {
                            cs["what"] = g_segv ? "read fault" : "assertion";
                            cs["expr"] = g_assert_expr ? (const char*)g_assert_expr : "";
                            cs.erase("image");
                            traps.push_back(cs);
                        }
                    }
                }
            });
        rep.finish(json{{"images", images}, {"non_write_traps", other_traps}, {"trap_samples", traps}});
        return 0;
    }
#endif
    std::fprintf(stderr, "usage: c11_readonly replay <schema> <vectors> | selftest\n");
    return 3;
}
