// Shared runtime for the conformance harnesses.
// A harness reads vectors (ndjson, produced by TLC through the driver),
// executes them against the real sbepp code and prints
//   MISMATCH {"sig":..., "desc":..., "case":...}     one per divergence
//   STAT {...}                                        once, at the end
// It never decides what is expected: expectations are fields of the vector.
#pragma once
#include <nlohmann/json.hpp>

#include <cstdint>
#include <cstdio>
#include <cstring>
#include <fstream>
#include <iostream>
#include <map>
#include <set>
#include <sstream>
#include <string>
#include <vector>

namespace vh
{
using json = nlohmann::json;
using bytes = std::vector<std::uint8_t>;

inline bytes to_bytes(const json& j)
{
    bytes b;
    for(const auto& x : j)
    {
        b.push_back(static_cast<std::uint8_t>(x.get<int>()));
    }
    return b;
}

inline json from_bytes(const bytes& b)
{
    json j = json::array();
    for(auto x : b)
    {
        j.push_back(static_cast<int>(x));
    }
    return j;
}

template<typename T>
bytes raw_of(const T& v)
{
    bytes b(sizeof(T));
    std::memcpy(b.data(), &v, sizeof(T));
    return b;
}

template<typename T>
T from_raw(const bytes& b)
{
    T v{};
    std::memcpy(&v, b.data(), sizeof(T) < b.size() ? sizeof(T) : b.size());
    return v;
}

struct report
{
    std::uint64_t evaluations = 0;
    std::uint64_t mismatches = 0;
    std::map<std::string, std::uint64_t> per_kind;
    std::set<std::string> distinct;
    std::map<std::string, std::uint64_t> mism_per_sig;

    void ok(const std::string& kind)
    {
        evaluations++;
        per_kind[kind]++;
    }

    void note_distinct(const std::string& key)
    {
        if(distinct.size() < 5000000)
        {
            distinct.insert(key);
        }
    }

    void mismatch(
        const std::string& sig, const std::string& desc, const json& cs)
    {
        evaluations++;
        mismatches++;
        // keep output bounded: at most 5 full reports per signature
        if(++mism_per_sig[sig] <= 5)
        {
            json j;
            j["sig"] = sig;
            j["desc"] = desc;
            j["case"] = cs;
            std::cout << "MISMATCH " << j.dump() << "\n";
        }
    }

    void finish(const json& extra = json::object())
    {
        for(auto& kv : mism_per_sig)
        {
            if(kv.second > 5)
            {
                json j;
                j["sig"] = kv.first;
                j["count"] = kv.second;
                std::cout << "MISMATCH_COUNT " << j.dump() << "\n";
            }
        }
        json j = extra;
        j["evaluations"] = evaluations;
        j["mismatches"] = mismatches;
        j["distinct"] = distinct.size();
        j["per_kind"] = per_kind;
        std::cout << "STAT " << j.dump() << std::endl;
    }
};

template<typename F>
void for_each_line(const char* path, F f)
{
    std::ifstream in(path);
    if(!in)
    {
        std::fprintf(stderr, "cannot open %s\n", path);
        std::exit(3);
    }
    std::string line;
    while(std::getline(in, line))
    {
        if(line.empty())
        {
            continue;
        }
        f(json::parse(line));
    }
}

inline std::string hex(const bytes& b)
{
    static const char* d = "0123456789abcdef";
    std::string s;
    for(auto x : b)
    {
        s.push_back(d[x >> 4]);
        s.push_back(d[x & 15]);
    }
    return s;
}

// deterministic PRNG for record mode (splitmix64)
struct rng
{
    std::uint64_t s;
    explicit rng(std::uint64_t seed) : s(seed * 0x9E3779B97F4A7C15ull + 1)
    {
    }
    std::uint64_t next()
    {
        std::uint64_t z = (s += 0x9E3779B97F4A7C15ull);
        z = (z ^ (z >> 30)) * 0xBF58476D1CE4E5B9ull;
        z = (z ^ (z >> 27)) * 0x94D049BB133111EBull;
        return z ^ (z >> 31);
    }
    std::uint64_t below(std::uint64_t n)
    {
        return n ? next() % n : 0;
    }
};
} // namespace vh
