// View conformance harness: replays View.tla vectors (decode images, encode
// transitions) against the real sbeppc-generated accessors of one schema.
//
// build: -DVH_DISPATCH="\"<generated dispatch file>\"" -I<generated headers>
// usage: view_main replay <vectors.ndjson>
// -DVH_RELEASE: the unchecked flavour of the library (no assertions, no size
// checks, views carry no end pointer) - legal calls must behave the same
#ifdef VH_RELEASE
#    define SBEPP_DISABLE_ASSERTS
#else
#    define SBEPP_ENABLE_ASSERTS_WITH_HANDLER
#endif
#include "view_harness.hpp"

namespace vh
{
sigjmp_buf g_jmp;
volatile int g_asserted;
volatile int g_segv;
volatile int g_armed;
const char* volatile g_assert_expr;
volatile long g_assert_line;
} // namespace vh

namespace sbepp
{
[[noreturn]] void assertion_failed(
    char const* expr, char const*, char const*, long line)
{
    vh::g_asserted = 1;
    vh::g_assert_expr = expr;
    vh::g_assert_line = line;
    if(vh::g_armed)
    {
        siglongjmp(vh::g_jmp, 1);
    }
    std::fprintf(stderr, "assertion outside guarded call: %s\n", expr);
    _exit(98);
}
} // namespace sbepp

#include VH_DISPATCH

using namespace vh;

static report rep;
static std::string g_schema;

static std::string join(const json& a)
{
    std::string s;
    for(const auto& x : a)
    {
        if(!s.empty())
            s += "/";
        s += x.get<std::string>();
    }
    return s;
}

static std::vector<int> ip0(const json& ip)
{
    std::vector<int> v;
    for(const auto& x : ip)
        v.push_back(x.get<int>() - 1);
    v.push_back(0);
    return v;
}

struct ctx
{
    const json* v;
    std::string msg;
    bool ext;
};

static void
    bad(const ctx& c, const std::string& aspect, const std::string& what,
        const std::string& key, const std::string& desc, json cs = json::object())
{
    cs["msg"] = c.msg;
    cs["key"] = key;
    cs["aspect"] = aspect;
    cs["ext"] = c.ext;
    cs["schema"] = g_schema;
    rep.mismatch(
        std::string(c.ext ? "decode-ext/" : "decode/") + what + "/" + g_schema
            + ":" + key,
        desc,
        cs);
}

// run f under assertion/segv capture; returns "" if it returned normally
template<typename F>
static std::string attempt(F&& f)
{
    if(guarded(f))
        return "";
    if(g_segv)
        return "touched memory outside the view (guard page hit)";
    return std::string("assertion handler invoked: ")
           + (g_assert_expr ? (const char*)g_assert_expr : "?") + " (sbepp.hpp:"
           + std::to_string(g_assert_line) + ")";
}

static void decode(const json& v)
{
    auto& R = registry::get();
    ctx c{&v, v["msg"].get<std::string>(), false};
    for(const auto& e : v["ext"])
        c.ext = c.ext || e.get<int>() != 0;
    const std::size_t v0 = v["v0"].get<std::size_t>();
    const std::size_t size = v["size"].get<std::size_t>();
    bytes all = to_bytes(v["buf"]);
    all.resize(v0 + size); // message ends exactly at the guard page
    region reg(all.size(), true);
    reg.load(all);
    reg.readonly(); // C11: no getter / size query may write
    char* p = reg.data() + v0;
    rep.note_distinct(c.msg + hex(all));

    // whole message
    {
        const auto& mo = R.messages.at(c.msg);
        std::size_t got = 0;
        auto err = attempt([&] { got = mo.size_bytes(p, size); });
        if(!err.empty())
            bad(c, "size", "msg-size", c.msg, err);
        else if(got != size)
            bad(c, "size", "msg-size", c.msg,
                "size_bytes(message) = " + std::to_string(got) + ", image length "
                    + std::to_string(size));
        else
            rep.ok("msg-size");
    }
    for(const auto& inst : v["insts"])
    {
        const std::string lkey = c.msg + ":" + join(inst["level"]);
        const auto ipv = ip0(inst["ip"]);
        const int* ip = ipv.data();
        json cs = {{"ip", inst["ip"]}};
        {
            const auto& lo = R.levels.at(lkey);
            std::ptrdiff_t a = 0;
            std::size_t sz = 0;
            auto err = attempt([&] { a = lo.addr(p, size, ip); });
            if(!err.empty())
                bad(c, "addr", "inst-addr", lkey, err, cs);
            else if(a + (std::ptrdiff_t)v0 != inst["addr"].get<std::ptrdiff_t>())
                bad(c, "addr", "inst-addr", lkey,
                    "view starts at " + std::to_string(a + v0) + ", image puts it at "
                        + std::to_string(inst["addr"].get<long>()),
                    cs);
            else
                rep.ok("inst-addr");
            err = attempt([&] { sz = lo.size_bytes(p, size, ip); });
            if(!err.empty())
                bad(c, "size", "inst-size", lkey, err, cs);
            else if(sz != inst["size"].get<std::size_t>())
                bad(c, "size", "inst-size", lkey,
                    "size_bytes = " + std::to_string(sz) + ", image "
                        + std::to_string(inst["size"].get<long>()),
                    cs);
            else
                rep.ok("inst-size");
        }
        for(const auto& leaf : inst["leaves"])
        {
            const std::string key = lkey + ":" + join(leaf["path"]);
            const auto& lo = R.leaves.at(key);
            const bytes exp = to_bytes(leaf["val"]);
            bytes got;
            auto err = attempt([&] { got = lo.get(p, size, ip); });
            if(!err.empty())
                bad(c, "value", "leaf", key, err, cs);
            else if(got != exp)
            {
                cs["expected"] = hex(exp);
                cs["got"] = hex(got);
                bad(c, "value", "leaf", key,
                    "getter returned " + hex(got) + ", encoder wrote " + hex(exp),
                    cs);
            }
            else
                rep.ok("leaf");
            // a set: every declared choice getter reports the bit of the encoded value it names
            // (leaf values are value digits, least significant byte first)
            const auto sb = R.setbits.find(key);
            if(sb != R.setbits.end() && err.empty())
            {
                bytes cm;
                auto err3 = attempt([&] { cm = sb->second(p, size, ip); });
                const std::size_t w = cm.size() / 2;
                bytes want(w, 0);
                for(std::size_t i = 0; i < w && i < exp.size(); i++)
                    want[i] = static_cast<std::uint8_t>(exp[i] & cm[w + i]);
                const bytes gotc(cm.begin(), cm.begin() + static_cast<std::ptrdiff_t>(w));
                if(!err3.empty())
                    bad(c, "value", "set-choices", key, err3, cs);
                else if(w != exp.size() || gotc != want)
                {
                    cs["expected"] = hex(want);
                    cs["got"] = hex(gotc);
                    bad(c, "value", "set-choices", key,
                        "the choice getters report " + hex(gotc) + " (declared bits), the encoder wrote " + hex(want),
                        cs);
                }
                else
                    rep.ok("set-choices");
            }
        }
        // get_by_tag must behave exactly like the named accessor (C19)
        for(auto it = R.tagged.lower_bound(lkey + ":");
            it != R.tagged.end() && it->first.compare(0, lkey.size() + 1, lkey + ":") == 0;
            ++it)
        {
            if(it->first.find(':', lkey.size() + 1) != std::string::npos)
                continue;
            cursor_ret a, b;
            auto err = attempt([&] { a = it->second.tget(p, size, ip); });
            auto err2 = attempt([&] { b = it->second.named(p, size, ip); });
            if(!err.empty() || !err2.empty())
                bad(c, "bytag", "get-by-tag", it->first, err.empty() ? err2 : err, cs);
            else if(a.what != b.what || a.value != b.value || a.addr != b.addr || a.n != b.n)
                bad(c, "bytag", "get-by-tag", it->first,
                    "get_by_tag differs from the named accessor", cs);
            else
                rep.ok("get-by-tag");
        }
        for(const auto& d : inst["data"])
        {
            const std::string key = lkey + ":" + d["name"].get<std::string>();
            const auto& dops = R.data.at(key);
            std::ptrdiff_t a = 0;
            std::size_t sz = 0;
            bytes got;
            auto err = attempt([&] { a = dops.addr(p, size, ip); });
            if(!err.empty())
                bad(c, "addr", "data-addr", key, err, cs);
            else if(a + (std::ptrdiff_t)v0 != d["addr"].get<std::ptrdiff_t>())
                bad(c, "addr", "data-addr", key,
                    "data view starts at " + std::to_string(a + v0) + ", image "
                        + std::to_string(d["addr"].get<long>()),
                    cs);
            else
                rep.ok("data-addr");
            err = attempt([&] { got = dops.get(p, size, ip); });
            if(!err.empty())
                bad(c, "value", "data-val", key, err, cs);
            else if(got != to_bytes(d["val"]))
                bad(c, "value", "data-val", key,
                    "data contents " + hex(got) + ", encoder wrote "
                        + hex(to_bytes(d["val"])),
                    cs);
            else
                rep.ok("data-val");
            err = attempt([&] { sz = dops.size_bytes(p, size, ip); });
            if(!err.empty())
                bad(c, "size", "data-size", key, err, cs);
            else if(sz != d["size"].get<std::size_t>())
                bad(c, "size", "data-size", key,
                    "size_bytes(data) = " + std::to_string(sz) + ", image "
                        + std::to_string(d["size"].get<long>()),
                    cs);
            else
                rep.ok("data-size");
        }
    }
    for(const auto& g : v["groups"])
    {
        const std::string key
            = c.msg + ":" + join(g["level"]) + ":" + g["name"].get<std::string>();
        const auto& go = R.groups.at(key);
        const auto ipv = ip0(g["ip"]);
        const int* ip = ipv.data();
        json cs = {{"ip", g["ip"]}};
        std::ptrdiff_t a = 0;
        std::uint64_t n = 0, bl = 0;
        std::size_t sz = 0;
        auto err = attempt([&] { a = go.addr(p, size, ip); });
        if(!err.empty())
            bad(c, "addr", "group-addr", key, err, cs);
        else if(a + (std::ptrdiff_t)v0 != g["addr"].get<std::ptrdiff_t>())
            bad(c, "addr", "group-addr", key,
                "group view starts at " + std::to_string(a + v0) + ", image "
                    + std::to_string(g["addr"].get<long>()),
                cs);
        else
            rep.ok("group-addr");
        err = attempt([&] { n = go.size(p, size, ip); });
        if(!err.empty())
            bad(c, "value", "group-n", key, err, cs);
        else if(n != g["n"].get<std::uint64_t>())
            bad(c, "value", "group-n", key,
                "size() = " + std::to_string(n) + ", numInGroup "
                    + std::to_string(g["n"].get<long>()),
                cs);
        else
            rep.ok("group-n");
        err = attempt([&] { bl = go.header_bl(p, size, ip); });
        if(!err.empty())
            bad(c, "value", "group-bl", key, err, cs);
        else if(bl != g["bl"].get<std::uint64_t>())
            bad(c, "value", "group-bl", key, "header blockLength differs", cs);
        else
            rep.ok("group-bl");
        // entries reached by iteration start where the image puts them
        {
            std::vector<std::ptrdiff_t> got, exp;
            const std::string child = join(g["level"]).empty()
                                          ? g["name"].get<std::string>()
                                          : join(g["level"]) + "/" + g["name"].get<std::string>();
            for(const auto& inst : v["insts"])
            {
                if(join(inst["level"]) != child || inst["ip"].size() != g["ip"].size() + 1)
                    continue;
                bool same = true;
                for(std::size_t q = 0; q < g["ip"].size(); q++)
                    same = same && inst["ip"][q] == g["ip"][q];
                if(same)
                    exp.push_back(inst["addr"].get<std::ptrdiff_t>() - (std::ptrdiff_t)v0);
            }
            err = attempt([&] { got = go.entry_addrs(p, size, ip); });
            if(!err.empty())
                bad(c, "addr", "group-iter", key, err, cs);
            else if(got != exp)
                bad(c, "addr", "group-iter", key,
                    "entries reached by iteration do not start where the image puts them", cs);
            else
                rep.ok("group-iter");
            err = attempt([&] { got = go.entry_addrs_idx(p, size, ip); });
            if(!err.empty())
                bad(c, "addr", "group-index", key, err, cs);
            else if(got != exp)
                bad(c, "addr", "group-index", key,
                    "entries reached through operator[] do not start where the image puts them", cs);
            else
                rep.ok("group-index");
        }
        err = attempt([&] { sz = go.size_bytes(p, size, ip); });
        if(!err.empty())
            bad(c, "size", "group-size", key, err, cs);
        else if(sz != g["size"].get<std::size_t>())
            bad(c, "size", "group-size", key,
                "size_bytes(group) = " + std::to_string(sz) + ", image "
                    + std::to_string(g["size"].get<long>()),
                cs);
        else
            rep.ok("group-size");
    }
}

static void encode(const json& v)
{
    auto& R = registry::get();
    const std::string msg = v["msg"].get<std::string>();
    const std::size_t v0 = v["v0"].get<std::size_t>();
    const std::size_t size = v["size"].get<std::size_t>();
    const bytes pre = to_bytes(v["pre"]);
    const bytes post = to_bytes(v["post"]);
    const json& st = v["step"];
    const std::string op = st["op"].get<std::string>();
    const std::string lkey = msg + ":" + join(st["level"]);
    const auto ipv = ip0(st["ip"]);
    const int* ip = ipv.data();
    region reg(pre.size(), true);
    reg.load(pre);
    char* p = reg.data() + v0;
    std::string key = lkey;
    std::ptrdiff_t ret = -1;
    std::string err;
    if(op == "mhdr")
    {
        key = msg;
        const auto& mo = R.messages.at(msg);
        err = attempt([&] { ret = mo.fill_header(p, size); });
    }
    else if(op == "set")
    {
        key = lkey + ":" + join(st["leaf"]);
        const auto& lo = R.leaves.at(key);
        const bytes val = to_bytes(st["val"]);
        err = attempt([&] { lo.set(p, size, ip, val); });
    }
    else if(op == "ghdr")
    {
        key = lkey + ":" + st["name"].get<std::string>();
        const auto& go = R.groups.at(key);
        const std::uint64_t n = st["n"].get<std::uint64_t>();
        err = attempt([&] { ret = go.fill_header(p, size, ip, n); });
        // the other API forms of the same step (ViewEmit.tla GroupForms)
        if(st.contains("forms"))
            for(const auto& fj : st["forms"])
            {
                const std::string form = fj.get<std::string>();
                if(form == "fill")
                    continue;
                region regf(pre.size(), true);
                regf.load(pre);
                char* pf = regf.data() + v0;
                std::ptrdiff_t retf = -1;
                ::vh::group_form() = form;
                const std::string ef = attempt([&] { retf = go.fill_header(pf, size, ip, n); });
                ::vh::group_form() = "fill";
                json csf = {{"msg", msg}, {"key", key}, {"op", op}, {"ip", st["ip"]}, {"form", form}, {"n", n},
                            {"schema", g_schema}, {"aspect", "bytes"}, {"pre", hex(pre)}, {"expected", hex(post)}};
                const std::string sigf = "encode/ghdr/" + g_schema + ":" + key + "/form=" + form;
                if(!ef.empty())
                    rep.mismatch(sigf + "/trap", ef, csf);
                else if(regf.dump() != post)
                {
                    csf["got"] = hex(regf.dump());
                    rep.mismatch(sigf, "group header written through `" + form
                                           + "` differs from the SBE image", csf);
                }
                else
                    rep.ok("encode-ghdr-form");
            }
    }
    if(op == "ghdr" && st.contains("big"))
    {
        // counts near the limits of the numInGroup type (ViewEmit.tla BigFills): header only
        const auto& go = R.groups.at(key);
        for(const auto& bj : st["big"])
        {
            const bytes nd = to_bytes(bj["n"]);
            std::uint64_t n = 0;
            for(std::size_t i = nd.size(); i-- > 0;)
                n = (n << 8) | nd[i];
            const bytes postb = to_bytes(bj["post"]);
          for(const char* form : {"fill", "fill_zero_then_resize"})
          {
            region regf(pre.size(), true);
            regf.load(pre);
            char* pf = regf.data() + v0;
            std::ptrdiff_t retf = -1;
            ::vh::group_form() = form;
            const std::string ef = attempt([&] { retf = go.fill_header(pf, size, ip, n); });
            ::vh::group_form() = "fill";
            json csf = {{"msg", msg}, {"key", key}, {"op", op}, {"ip", st["ip"]}, {"n", n}, {"form", form},
                        {"schema", g_schema}, {"aspect", "bytes"}, {"pre", hex(pre)}, {"expected", hex(postb)}};
            const std::string sigf = "encode/ghdr/" + g_schema + ":" + key + "/big-count/form=" + form;
            if(!ef.empty())
                rep.mismatch(sigf + "/trap", ef, csf);
            else if(regf.dump() != postb)
            {
                csf["got"] = hex(regf.dump());
                rep.mismatch(sigf, "fill_group_header with numInGroup = " + std::to_string(n)
                                       + " leaves bytes that differ from the SBE header image", csf);
            }
            else
                rep.ok("encode-ghdr-big");
          }
        }
    }
    if(op == "data")
    {
        key = lkey + ":" + st["name"].get<std::string>();
        const auto& dops = R.data.at(key);
        const bytes val = to_bytes(st["val"]);
        err = attempt([&] { dops.assign(p, size, ip, val); });
        // every other API form of the same assignment (ViewEmit.tla DataForms)
        // must leave the same bytes
        if(st.contains("forms"))
            for(const auto& fj : st["forms"])
            {
                const std::string form = fj.get<std::string>();
                if(form == "assign_range")
                    continue;
                region regf(pre.size(), true);
                regf.load(pre);
                char* pf = regf.data() + v0;
                ::vh::data_form() = form;
                const std::string ef = attempt([&] { dops.assign(pf, size, ip, val); });
                ::vh::data_form() = "assign_range";
                json csf = {{"msg", msg}, {"key", key}, {"op", op}, {"ip", st["ip"]}, {"form", form},
                            {"schema", g_schema}, {"aspect", "bytes"}, {"pre", hex(pre)}, {"expected", hex(post)}};
                const std::string sigf = "encode/data/" + g_schema + ":" + key + "/form=" + form;
                if(!ef.empty())
                    rep.mismatch(sigf + "/trap", ef, csf);
                else if(regf.dump() != post)
                {
                    csf["got"] = hex(regf.dump());
                    rep.mismatch(sigf, "data value given through `" + form
                                           + "` leaves bytes that differ from the SBE image", csf);
                }
                else
                    rep.ok("encode-data-form");
            }
    }
    rep.note_distinct(op + key + hex(pre));
    json cs = {{"msg", msg}, {"key", key}, {"op", op}, {"ip", st["ip"]},
               {"schema", g_schema}, {"aspect", "bytes"}};
    const std::string sig = "encode/" + op + "/" + g_schema + ":" + key;
    if(!err.empty())
    {
        rep.mismatch(sig + "/trap", err, cs);
        return;
    }
    const bytes got = reg.dump();
    if(got != post)
    {
        std::size_t d = 0;
        while(d < got.size() && got[d] == post[d])
            d++;
        cs["first_diff"] = d;
        cs["expected"] = hex(post);
        cs["got"] = hex(got);
        cs["pre"] = hex(pre);
        rep.mismatch(
            sig,
            op + " wrote bytes that differ from the SBE image at region offset "
                + std::to_string(d) + " (view starts at " + std::to_string(v0) + ")",
            cs);
    }
    else
        rep.ok("encode-" + op);
    if(op == "set" && st["leaf"].size() == 1)
    {
        auto it = R.tagged.find(key);
        if(it != R.tagged.end() && it->second.tset)
        {
            region reg2(pre.size(), true);
            reg2.load(pre);
            char* p2 = reg2.data() + v0;
            const bytes val = to_bytes(st["val"]);
            auto e2 = attempt([&] { it->second.tset(p2, size, ip, val); });
            cs["aspect"] = "bytag";
            if(!e2.empty())
                rep.mismatch("encode/set-by-tag/" + g_schema + ":" + key + "/trap", e2, cs);
            else if(reg2.dump() != post)
                rep.mismatch(
                    "encode/set-by-tag/" + g_schema + ":" + key,
                    "set_by_tag wrote different bytes than the SBE image", cs);
            else
                rep.ok("encode-set-by-tag");
        }
    }
    if(op == "mhdr" || op == "ghdr")
    {
        if(ret + (std::ptrdiff_t)v0 != st["ret"].get<std::ptrdiff_t>())
        {
            cs["aspect"] = "ret";
            rep.mismatch(
                sig + "/ret",
                "returned header view starts at " + std::to_string(ret + v0)
                    + ", expected " + std::to_string(st["ret"].get<long>()),
                cs);
        }
        else
            rep.ok("encode-ret");
    }
}

static bool g_bytag = false; // second pass of cursor vectors: through get/set_by_tag
static int wrapper_id(const std::string& w)
{
    return w == "plain" ? 0 : w == "init" ? 1 : w == "dont_move" ? 2
           : w == "init_dont_move"        ? 3
                                          : 4;
}

// one cursor-based accessor call (Cursor.tla transition)
static void cursor_call(const json& v)
{
    auto& R = registry::get();
    const std::string msg = v["msg"].get<std::string>();
    const std::size_t v0 = v["v0"].get<std::size_t>();
    const std::size_t size = v["size"].get<std::size_t>();
    bool ext = false;
    for(const auto& e : v["ext"])
        ext = ext || e.get<int>() != 0;
    bytes pre = to_bytes(v["pre"]);
    bytes post = to_bytes(v["post"]);
    pre.resize(v0 + size);
    post.resize(v0 + size);
    const std::string w = v["w"].get<std::string>();
    const bool set = v["set"].get<bool>();
    const bool legal = v["legal"].get<bool>();
    const std::string key = msg + ":" + join(v["level"]) + ":"
                            + v["name"].get<std::string>();
    const auto ipv = ip0(v["ip"]);
    const int* ip = ipv.data();
    const auto& mo = R.members.at(key);
    const auto tg = R.tagged.find(key);
    const bool by_tag = g_bytag && tg != R.tagged.end() && (set ? (bool)tg->second.tcset : (bool)tg->second.tcget);
    if(g_bytag && !by_tag)
        return;
    region reg(pre.size(), true);
    reg.load(pre);
    char* p = reg.data() + v0;
    const long cur_in = v["cur"].get<long>();
    std::ptrdiff_t cur = cur_in < 0 ? cur_unset : cur_in - (long)v0;
    cursor_ret ret;
    const bytes val = to_bytes(v["val"]);
    const int wid = wrapper_id(w);
    rep.note_distinct(key + w + std::to_string(cur_in) + (set ? "s" : "g") + (g_bytag ? "T" : "") + hex(pre));
    std::string err = attempt(
        [&]
        {
            if(g_bytag)
            {
                if(set)
                    tg->second.tcset(p, size, ip, wid, cur, val);
                else
                    ret = tg->second.tcget(p, size, ip, wid, cur);
            }
            else if(set)
                mo.cset(p, size, ip, wid, cur, val);
            else
                ret = mo.cget(p, size, ip, wid, cur);
        });
    json cs = {{"msg", msg}, {"key", key}, {"w", w}, {"set", set},
               {"cur", cur_in}, {"ip", v["ip"]}, {"schema", g_schema},
               {"ext", ext}, {"legal", legal}, {"mkind", v["mkind"]}};
    const std::string sig = std::string(g_bytag ? "cursor-by-tag/" : "cursor/") + w + "/"
                            + v["mkind"].get<std::string>() + "/"
                            + (set ? "set" : "get") + "/";
    const std::string tail = "/" + g_schema + ":" + key;
    if(!legal)
    {
        // property: must be reported through the assertion handler
        if(err.empty())
            rep.mismatch(
                sig + "unreported" + tail,
                "cursor at " + std::to_string(cur_in)
                    + " is not where the member requires it, yet the call was "
                      "not reported (cursor now "
                    + std::to_string(cur + (long)v0) + ")",
                cs);
        else if(g_segv)
            rep.mismatch(sig + "segv" + tail, err, cs);
        else
            rep.ok("cursor-illegal-reported");
        return;
    }
    if(!err.empty())
    {
        rep.mismatch(sig + "trap" + tail, "legal call: " + err, cs);
        return;
    }
    const long post_cur = v["post_cur"].get<long>();
    const long got_cur = cur == cur_unset ? -1 : (long)(cur + (std::ptrdiff_t)v0);
    if(got_cur != post_cur)
    {
        cs["got_cur"] = got_cur;
        cs["post_cur"] = post_cur;
        rep.mismatch(
            sig + "pos" + tail,
            "cursor left at " + std::to_string(got_cur) + ", documented position "
                + std::to_string(post_cur),
            cs);
    }
    else
        rep.ok("cursor-pos");
    if(reg.dump() != post)
        rep.mismatch(sig + "bytes" + tail, "buffer differs after the call", cs);
    else
        rep.ok("cursor-bytes");
    const json& er = v["ret"];
    const std::string what = er["what"].get<std::string>();
    if(what == "none")
        return;
    bool good = true;
    std::string d;
    if(what == "value")
    {
        good = ret.what == 1 && ret.value == to_bytes(er["bytes"]);
        d = "value " + hex(ret.value) + " vs random access " + hex(to_bytes(er["bytes"]));
    }
    else
    {
        good = ret.addr + (std::ptrdiff_t)v0 == er["addr"].get<std::ptrdiff_t>();
        d = "view at " + std::to_string(ret.addr + v0) + " vs random access "
            + std::to_string(er["addr"].get<long>());
        if(what == "group")
            good = good && ret.what == 3 && ret.n == er["n"].get<std::uint64_t>();
        if(what == "data")
            good = good && ret.what == 4 && ret.value == to_bytes(er["bytes"]);
    }
    if(!good)
        rep.mismatch(sig + "ret" + tail, "cursor access returned " + d, cs);
    else
        rep.ok("cursor-ret");
}

// one visit of the whole message by the recursive visitor stopping at its
// k-th callback (Visit.tla)
static void visit_call(const json& v)
{
    auto& R = registry::get();
    const std::string msg = v["msg"].get<std::string>();
    const std::size_t v0 = v["v0"].get<std::size_t>();
    const std::size_t size = v["size"].get<std::size_t>();
    bool ext = false;
    for(const auto& e : v["ext"])
        ext = ext || e.get<int>() != 0;
    bytes all = to_bytes(v["buf"]);
    all.resize(v0 + size);
    region reg(all.size(), true);
    reg.load(all);
    reg.readonly();
    char* p = reg.data() + v0;
    const int stop = v["stop"].get<int>();
    const std::string how = v["how"].get<std::string>();
    const int chunk = how == "sub1" ? 1 : how == "sub2" ? 2 : 0;
    std::vector<vevent> log;
    std::ptrdiff_t end = 0;
    rep.note_distinct(msg + std::to_string(stop) + v["how"].get<std::string>() + hex(all));
    const auto& vo = R.visits.at(msg);
    std::string err = attempt([&] { end = vo.run(p, size, stop, log, chunk); });
    json cs = {{"msg", msg}, {"stop", stop}, {"schema", g_schema}, {"ext", ext}, {"how", how}};
    const std::string tail = std::string(chunk ? "/subrange" : "") + "/" + g_schema + ":" + msg;
    if(!err.empty())
    {
        cs["events_before"] = log.size();
        rep.mismatch(std::string("visit/trap") + tail, err, cs);
        return;
    }
    // C05 / C19: where a complete visit leaves the cursor, and the cursor-based size,
    // are observations of their own - reported whatever else differs on the way
    auto check_end = [&] {
        if(!v["complete"].get<bool>())
            return;
        if(end + (std::ptrdiff_t)v0 != v["end_cur"].get<std::ptrdiff_t>())
            rep.mismatch(
                std::string("visit/end") + tail,
                "after a complete visit the cursor is at " + std::to_string(end + v0)
                    + ", end of the message is "
                    + std::to_string(v["end_cur"].get<long>()),
                cs);
        else
            rep.ok("visit-end");
        // C05: the cursor-based size after a full traversal is the encoded size
        if(cursor_size_slot() != size)
            rep.mismatch(
                std::string("visit/cursor-size") + tail,
                "size_bytes(message, cursor) after a complete traversal = "
                    + std::to_string(cursor_size_slot()) + ", image length " + std::to_string(size),
                cs);
        else
            rep.ok("visit-cursor-size");
    };
    const json& el = v["log"];
    bool good = log.size() == el.size();
    std::size_t bad_i = 0;
    std::string why = "number of callbacks " + std::to_string(log.size())
                      + ", expected " + std::to_string(el.size());
    for(std::size_t i = 0; good && i < log.size(); i++)
    {
        const json& e = el[i];
        std::string key = join(e["key"]);
        if(log[i].ev != e["ev"].get<std::string>() || log[i].key != key)
        {
            good = false;
            why = "callback " + std::to_string(i + 1) + " is " + log[i].ev + " "
                  + log[i].key + ", schema order says " + e["ev"].get<std::string>()
                  + " " + key;
        }
        else if(log[i].val != to_bytes(e["val"]) || log[i].n != e["n"].get<std::uint64_t>())
        {
            good = false;
            why = "callback " + std::to_string(i + 1) + " (" + log[i].ev + " " + key
                  + ") carried " + hex(log[i].val) + "/n=" + std::to_string(log[i].n)
                  + ", named accessor gives " + hex(to_bytes(e["val"])) + "/n="
                  + std::to_string(e["n"].get<long>());
        }
        bad_i = i;
    }
    if(!good)
    {
        cs["at"] = bad_i;
        rep.mismatch(
            std::string(stop ? "visit/stop-log" : "visit/log") + tail, why, cs);
        check_end();
        return;
    }
    rep.ok(stop ? "visit-stop" : "visit-complete");
    // cursor at each callback (same cursor object is threaded through)
    for(std::size_t i = 0; i < log.size(); i++)
    {
        if(log[i].cur + (std::ptrdiff_t)v0 != el[i]["cur"].get<std::ptrdiff_t>()
           && log[i].cur + (std::ptrdiff_t)v0 != el[i]["alt"].get<std::ptrdiff_t>())
        {
            cs["at"] = i;
            rep.mismatch(
                std::string("visit/cursor/") + log[i].ev + tail,
                "at callback " + std::to_string(i + 1) + " (" + log[i].ev + " "
                    + log[i].key + ") the cursor is at "
                    + std::to_string(log[i].cur + v0) + ", protocol says "
                    + std::to_string(el[i]["cur"].get<long>()),
                cs);
            check_end();
            return;
        }
    }
    rep.ok("visit-cursors");
    check_end();
}

// ---- record mode: random in-order encoding of one message, logged for
// ---- ViewTrace.tla
static json split(const std::string& s)
{
    json a = json::array();
    std::string cur;
    for(char ch : s)
    {
        if(ch == '/')
        {
            a.push_back(cur);
            cur.clear();
        }
        else
            cur.push_back(ch);
    }
    if(!cur.empty())
        a.push_back(cur);
    return a;
}
static json ip1(const std::vector<int>& ip)
{
    json a = json::array();
    for(int x : ip)
        a.push_back(x + 1);
    return a;
}
static json delta(const bytes& a, const bytes& b)
{
    json d = json::array();
    std::size_t i = 0;
    while(i < a.size())
    {
        if(a[i] == b[i])
        {
            i++;
            continue;
        }
        std::size_t j = i;
        bytes ch;
        while(j < a.size() && a[j] != b[j])
            ch.push_back(b[j++]);
        d.push_back({{"off", i}, {"bytes", from_bytes(ch)}});
        i = j;
    }
    return d;
}
struct recorder
{
    std::string msg;
    region* reg;
    char* p;
    std::size_t cap;
    rng* r;
    std::ostream* out;
    struct written
    {
        std::string lkey, leaf;
        std::vector<int> ip;
    };
    std::vector<written> done;

    std::vector<int> ipz(const std::vector<int>& ip)
    {
        auto v = ip;
        v.push_back(0);
        return v;
    }
    void maybe_get()
    {
        if(done.empty() || r->below(3) != 0)
            return;
        const auto& w = done[r->below(done.size())];
        auto ipv = ipz(w.ip);
        const bytes got = registry::get().leaves.at(w.lkey + ":" + w.leaf).get(p, cap, ipv.data());
        *out << json({{"e", "get"}, {"level", split(w.lkey.substr(msg.size() + 1))},
                      {"ip", ip1(w.ip)}, {"leaf", split(w.leaf)}, {"val", from_bytes(got)}})
                    .dump()
             << "\n";
    }
    void level(const std::vector<std::string>& path, const std::vector<int>& ip, int depth)
    {
        auto& R = registry::get();
        std::string lp;
        for(auto& x : path)
            lp += (lp.empty() ? "" : "/") + x;
        const std::string lkey = msg + ":" + lp;
        const auto& st = R.structs.at(lkey);
        auto ipv = ipz(ip);
        for(const auto& leaf : st.leaves)
        {
            const auto& lo = R.leaves.at(lkey + ":" + leaf);
            bytes val = lo.get(p, cap, ipv.data());
            for(auto& b : val)
                b = static_cast<std::uint8_t>(r->below(4) == 0 ? (r->below(2) ? 0 : 255) : r->next());
            const bytes before = reg->dump();
            lo.set(p, cap, ipv.data(), val);
            *out << json({{"e", "set"}, {"level", split(lp)}, {"ip", ip1(ip)},
                          {"leaf", split(leaf)}, {"val", from_bytes(val)},
                          {"delta", delta(before, reg->dump())}})
                        .dump()
                 << "\n";
            done.push_back({lkey, leaf, ip});
            maybe_get();
        }
        for(const auto& g : st.groups)
        {
            const auto& go = R.groups.at(lkey + ":" + g);
            const std::uint64_t n = r->below(depth == 0 ? 5 : 3);
            bytes before = reg->dump();
            go.fill_header(p, cap, ipv.data(), n);
            *out << json({{"e", "ghdr"}, {"level", split(lp)}, {"ip", ip1(ip)}, {"name", g},
                          {"n", n}, {"delta", delta(before, reg->dump())}})
                        .dump()
                 << "\n";
            auto cp = path;
            cp.push_back(g);
            for(std::uint64_t e = 0; e < n; e++)
            {
                auto cip = ip;
                cip.push_back(static_cast<int>(e));
                level(cp, cip, depth + 1);
            }
            *out << json({{"e", "gsize"}, {"level", split(lp)}, {"ip", ip1(ip)}, {"name", g},
                          {"n", go.size(p, cap, ipv.data())},
                          {"ret", go.size_bytes(p, cap, ipv.data())}})
                        .dump()
                 << "\n";
        }
        for(const auto& d : st.data)
        {
            const auto& dops = R.data.at(lkey + ":" + d);
            bytes val(r->below(7));
            for(auto& b : val)
                b = static_cast<std::uint8_t>(r->next());
            const bytes before = reg->dump();
            dops.assign(p, cap, ipv.data(), val);
            *out << json({{"e", "data"}, {"level", split(lp)}, {"ip", ip1(ip)}, {"name", d},
                          {"val", from_bytes(val)}, {"delta", delta(before, reg->dump())}})
                        .dump()
                 << "\n";
            maybe_get();
        }
    }
};

static int record_main(int argc, char** argv)
{
    // view_main record <schema> <msg> <seed> <episodes> <out>
    g_schema = argv[2];
    const std::string msg = argv[3];
    rng r(std::stoull(argv[4]));
    const int episodes = std::stoi(argv[5]);
    std::ofstream out(argv[6]);
    const std::size_t v0 = 8, total = 1600;
    for(int e = 0; e < episodes; e++)
    {
        region reg(total, true);
        bytes bg(total);
        for(std::size_t i = 0; i < total; i++)
            bg[i] = static_cast<std::uint8_t>(r.next());
        reg.load(bg);
        recorder rec{msg, &reg, reg.data() + v0, total - v0 - 8, &r, &out, {}};
        out << json({{"e", "Reset"}, {"msg", msg}, {"buf", from_bytes(bg)}}).dump() << "\n";
        std::string err = attempt(
            [&]
            {
                const bytes before = reg.dump();
                registry::get().messages.at(msg).fill_header(rec.p, rec.cap);
                out << json({{"e", "mhdr"}, {"delta", delta(before, reg.dump())}}).dump() << "\n";
                rec.level({}, {}, 0);
                out << json({{"e", "size"},
                             {"ret", registry::get().messages.at(msg).size_bytes(rec.p, rec.cap)}})
                           .dump()
                    << "\n";
            });
        if(!err.empty())
        {
            std::fprintf(stderr, "record: %s\n", err.c_str());
            return 4;
        }
    }
    return 0;
}

static void enum_visit(const json& v)
{
    const std::string name = v["name"].get<std::string>();
    const auto& eo = registry::get().enums.at(name);
    // the value's little-endian bytes (64-bit values are no TLC integers)
    std::uint64_t x = 0;
    {
        int sh = 0;
        for(const auto& b : v["x"])
        {
            x |= static_cast<std::uint64_t>(b.get<unsigned>()) << sh;
            sh += 8;
        }
    }
    const std::string exp = v["tag"].get<std::string>();
    rep.note_distinct("enum" + name + std::to_string(x));
    json cs = {{"enum", name}, {"x", x}, {"schema", g_schema}, {"expected", exp}};
    const std::string got = eo.visit_tag(x);
    if(got != exp)
        rep.mismatch("visit/enum/" + g_schema + ":" + name,
                     "visit(enum " + name + " = " + std::to_string(x) + ") reported tag " + got
                         + ", schema says " + exp,
                     cs);
    else
        rep.ok("visit-enum");
    const std::string s2 = eo.to_string(x);
    if(s2 != (exp == "unknown" ? std::string("(null)") : exp))
        rep.mismatch("visit/enum_to_string/" + g_schema + ":" + name,
                     "enum_to_string gave " + s2 + " for a value whose tag is " + exp, cs);
    else
        rep.ok("enum-to-string");
}

int main(int argc, char** argv)
{
    if(argc >= 7 && std::string(argv[1]) == "record")
    {
        install_handlers();
        return record_main(argc, argv);
    }
    install_handlers();
    if(argc >= 4 && std::string(argv[1]) == "replay")
    {
        g_schema = argv[2];
        for_each_line(
            argv[3],
            [](const json& v)
            {
                const std::string k = v["kind"].get<std::string>();
                if(k == "decode")
                    decode(v);
                else if(k == "encode")
                    encode(v);
                else if(k == "cursor")
                {
                    g_bytag = false;
                    cursor_call(v);
                    g_bytag = true; // same call through get_by_tag / set_by_tag
                    cursor_call(v);
                    g_bytag = false;
                }
                else if(k == "visit")
                    visit_call(v);
                else if(k == "enumvisit")
                    enum_visit(v);
            });
        rep.finish();
        return 0;
    }
    std::fprintf(stderr, "usage: view_main replay <schema> <vectors>\n");
    return 3;
}
