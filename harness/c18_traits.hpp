// C18 - prints the trait table of the real generated headers.
//
// Pass 1 (emit_<kind><Tag>(path)): every documented member of
// sbepp::<kind>_traits<Tag>, called by name.  Members are reached through
// detectors, so a missing trait shows up as `has_x:false` / an absent key (a
// per-trait disagreement) instead of a compile error.
// Pass 2 (walk<SchemaTag>()): starts from the schema tag only and follows the
// children tag lists (type_tags, message_tags, field_tags, group_tags,
// data_tags, element_tags, value_tags, choice_tags), classifying every tag it
// meets with the tag-kind predicates.
//
// Nothing in here knows a value: numbers are printed as decimal text, strings
// JSON-escaped, C++ types by a fixed type -> name table, tags by the
// registrations the generated TU makes (C18_TAGNAME, names only).
//
// C++11.
#pragma once

#include <sbepp/sbepp.hpp>

#include <cstdint>
#include <cstdio>
#include <cstring>
#include <string>
#include <type_traits>

#ifndef C18_DATA_TOTAL
#    define C18_DATA_TOTAL 7
#endif

namespace c18
{
template<class...>
struct make_void
{
    typedef void type;
};
template<class... T>
using void_t = typename make_void<T...>::type;

struct missing
{
};

// ------------------------------------------------------------------ JSON --
inline std::string esc(const std::string& s)
{
    std::string r;
    for(std::size_t i = 0; i < s.size(); i++)
    {
        const unsigned char c = static_cast<unsigned char>(s[i]);
        if(c == '"' || c == '\\')
        {
            r += '\\';
            r += static_cast<char>(c);
        }
        else if(c < 0x20 || c == 0x7f)
        {
            char b[8];
            std::snprintf(b, sizeof(b), "\\u%04x", c);
            r += b;
        }
        else
        {
            r += static_cast<char>(c);
        }
    }
    return r;
}

struct Obj
{
    std::string body;
    std::string prefix;
    void kv(const std::string& k, const std::string& v)
    {
        if(!body.empty())
        {
            body += ",";
        }
        body += "\"" + esc(prefix + k) + "\":\"" + esc(v) + "\"";
    }
};

inline void flush(const char* what, const char* path, const char* kind, const Obj& o)
{
    std::printf(
        "%s {\"path\":\"%s\",\"kind\":\"%s\",\"traits\":{%s}}\n",
        what,
        esc(path).c_str(),
        kind,
        o.body.c_str());
}

// ------------------------------------------------- type -> name (fixed) --
template<class T>
struct prim_name
{
    static const char* get()
    {
        return "?";
    }
};
#define C18_PRIM(T, N)            \
    template<>                    \
    struct prim_name<T>           \
    {                             \
        static const char* get()  \
        {                         \
            return N;             \
        }                         \
    }
C18_PRIM(char, "char");
C18_PRIM(std::int8_t, "int8");
C18_PRIM(std::uint8_t, "uint8");
C18_PRIM(std::int16_t, "int16");
C18_PRIM(std::uint16_t, "uint16");
C18_PRIM(std::int32_t, "int32");
C18_PRIM(std::uint32_t, "uint32");
C18_PRIM(std::int64_t, "int64");
C18_PRIM(std::uint64_t, "uint64");
C18_PRIM(float, "float");
C18_PRIM(double, "double");
C18_PRIM(const char*, "cstr");
C18_PRIM(bool, "bool");
#undef C18_PRIM

// tag -> path: registered by the generated TU for every schema entity
template<class Tag>
struct tagname
{
    static const char* get()
    {
        return "?";
    }
};
#define C18_TAGNAME(TAG, NAME)       \
    namespace c18                    \
    {                                \
    template<>                       \
    struct tagname<TAG>              \
    {                                \
        static const char* get()     \
        {                            \
            return NAME;             \
        }                            \
    };                               \
    }                                \
    static_assert(true, "")

template<class Tag>
struct is_builtin_tag : std::false_type
{
};
#define C18_BUILTIN(N)                        \
    template<>                                \
    struct is_builtin_tag<sbepp::N##_t> : std::true_type       \
    {                                         \
    };                                        \
    template<>                                \
    struct is_builtin_tag<sbepp::N##_opt_t> : std::true_type   \
    {                                         \
    };                                        \
    template<>                                \
    struct tagname<sbepp::N##_t>              \
    {                                         \
        static const char* get()              \
        {                                     \
            return "builtin/" #N;             \
        }                                     \
    };                                        \
    template<>                                \
    struct tagname<sbepp::N##_opt_t>          \
    {                                         \
        static const char* get()              \
        {                                     \
            return "builtin/" #N "_opt";      \
        }                                     \
    }
C18_BUILTIN(char);
C18_BUILTIN(int8);
C18_BUILTIN(uint8);
C18_BUILTIN(int16);
C18_BUILTIN(uint16);
C18_BUILTIN(int32);
C18_BUILTIN(uint32);
C18_BUILTIN(int64);
C18_BUILTIN(uint64);
C18_BUILTIN(float);
C18_BUILTIN(double);
#undef C18_BUILTIN

// --------------------------------------------------------- value -> text --
inline std::string str(const char* s)
{
    return s ? std::string(s) : std::string("(null)");
}
inline std::string str(bool b)
{
    return b ? "true" : "false";
}
// float/double: exact text - "nan", "inf" / "-inf", otherwise C99 hexfloat
// (the sign bit of zero and of infinity is visible, NaN-ness is explicit)
inline std::string fp_text(double v)
{
    if(v != v)
    {
        return "nan";
    }
    if(v - v != 0)
    {
        return v < 0 ? "-inf" : "inf";
    }
    char b[64];
    std::snprintf(b, sizeof(b), "%a", v);
    return b;
}
inline std::string str(float v)
{
    // every binary32 value is a binary64 value: the conversion is exact
    return fp_text(static_cast<double>(v));
}
inline std::string str(double v)
{
    return fp_text(v);
}
inline std::string str(sbepp::field_presence p)
{
    return p == sbepp::field_presence::required   ? "required"
           : p == sbepp::field_presence::optional ? "optional"
           : p == sbepp::field_presence::constant ? "constant"
                                                  : "?";
}
inline std::string str_endian(sbepp::endian e)
{
    return e == sbepp::endian::little ? "little" : e == sbepp::endian::big ? "big" : "?";
}
template<class T>
typename std::enable_if<
    std::is_integral<T>::value && std::is_signed<T>::value && !std::is_same<T, bool>::value,
    std::string>::type
    str(T v)
{
    return std::to_string(static_cast<long long>(v));
}
template<class T>
typename std::enable_if<
    std::is_integral<T>::value && std::is_unsigned<T>::value && !std::is_same<T, bool>::value,
    std::string>::type
    str(T v)
{
    return std::to_string(static_cast<unsigned long long>(v));
}
// scoped enums (enum_value_traits::value()): a char-encoded enumerator is the
// character the schema states, others the decimal number
template<class U>
struct enum_text
{
    static std::string get(U v)
    {
        return str(v);
    }
};
template<>
struct enum_text<char>
{
    static std::string get(char v)
    {
        return std::string(1, v);
    }
};
template<class E>
typename std::enable_if<
    std::is_enum<E>::value && !std::is_same<E, sbepp::field_presence>::value
        && !std::is_same<E, sbepp::endian>::value,
    std::string>::type
    str(E v)
{
    typedef typename std::underlying_type<E>::type U;
    return enum_text<U>::get(static_cast<U>(v));
}

// -------------------------------------------- representation type -> text --
template<class T, class = void>
struct has_traits_tag : std::false_type
{
};
template<class T>
struct has_traits_tag<T, void_t<typename sbepp::traits_tag<T>::type>> : std::true_type
{
};

template<class VT, bool Arith = std::is_arithmetic<VT>::value, bool HasTag = has_traits_tag<VT>::value>
struct vt_desc
{
    static std::string get()
    {
        return "unknown";
    }
};
template<>
struct vt_desc<missing, false, false>
{
    static std::string get()
    {
        return "none";
    }
};
template<class VT, bool H>
struct vt_desc<VT, true, H>
{
    static std::string get()
    {
        return std::string("prim:") + prim_name<VT>::get();
    }
};
template<class VT>
struct vt_desc<VT, false, true>
{
    static std::string get()
    {
        // traits_tag_t<value_type>: representation type -> tag
        return std::string("tag:") + tagname<typename sbepp::traits_tag<VT>::type>::get();
    }
};

template<class E, bool = std::is_enum<E>::value>
struct enum_over
{
    static const char* get()
    {
        return "not-an-enum";
    }
};
template<class E>
struct enum_over<E, true>
{
    static const char* get()
    {
        return prim_name<typename std::underlying_type<E>::type>::get();
    }
};

// --------------------------------------------------------------- detectors --
#define C18_ALIAS(NAME)                                              \
    template<class T, class = void>                                  \
    struct has_##NAME : std::false_type                              \
    {                                                                \
        typedef missing type;                                        \
    };                                                               \
    template<class T>                                                \
    struct has_##NAME<T, void_t<typename T::NAME>> : std::true_type  \
    {                                                                \
        typedef typename T::NAME type;                               \
    }
#define C18_ALIAS_TMPL(NAME)                                                            \
    template<class T, class = void>                                                     \
    struct has_tmpl_##NAME : std::false_type                                            \
    {                                                                                   \
        typedef missing type;                                                           \
    };                                                                                  \
    template<class T>                                                                   \
    struct has_tmpl_##NAME<T, void_t<typename T::template NAME<char>>> : std::true_type \
    {                                                                                   \
        typedef typename T::template NAME<char> type;                                   \
    }
C18_ALIAS(value_type);
C18_ALIAS_TMPL(value_type);
C18_ALIAS(primitive_type);
C18_ALIAS(encoding_type);
C18_ALIAS(value_type_tag);
C18_ALIAS(header_type_tag);
C18_ALIAS_TMPL(header_type);
C18_ALIAS(schema_tag);
C18_ALIAS_TMPL(dimension_type);
C18_ALIAS(dimension_type_tag);
C18_ALIAS_TMPL(entry_type);
C18_ALIAS(length_type);
C18_ALIAS(length_type_tag);
C18_ALIAS(type_tags);
C18_ALIAS(message_tags);
C18_ALIAS(value_tags);
C18_ALIAS(choice_tags);
C18_ALIAS(element_tags);
C18_ALIAS(field_tags);
C18_ALIAS(group_tags);
C18_ALIAS(data_tags);

// static member functions without parameters
#define C18_FN(NAME)                                                              \
    template<class T, class = void>                                               \
    struct has_fn_##NAME : std::false_type                                        \
    {                                                                             \
    };                                                                            \
    template<class T>                                                             \
    struct has_fn_##NAME<T, void_t<decltype(T::NAME())>> : std::true_type         \
    {                                                                             \
    };                                                                            \
    template<class T, bool = has_fn_##NAME<T>::value>                             \
    struct put_##NAME                                                             \
    {                                                                             \
        static void go(Obj& o)                                                    \
        {                                                                         \
            o.kv("has_" #NAME, "false");                                          \
        }                                                                         \
    };                                                                            \
    template<class T>                                                             \
    struct put_##NAME<T, true>                                                    \
    {                                                                             \
        static void go(Obj& o)                                                    \
        {                                                                         \
            o.kv("has_" #NAME, "true");                                           \
            o.kv(#NAME, str(T::NAME()));                                          \
            o.kv("rt_" #NAME, prim_name<decltype(T::NAME())>::get());             \
            o.kv("noexcept_" #NAME, str(static_cast<bool>(noexcept(T::NAME())))); \
        }                                                                         \
    }
C18_FN(name);
C18_FN(description);
C18_FN(presence);
C18_FN(min_value);
C18_FN(max_value);
C18_FN(null_value);
C18_FN(length);
C18_FN(offset);
C18_FN(semantic_type);
C18_FN(since_version);
C18_FN(deprecated);
C18_FN(character_encoding);
C18_FN(package);
C18_FN(id);
C18_FN(version);
C18_FN(semantic_version);
C18_FN(block_length);
C18_FN(size_bytes);
C18_FN(value);
C18_FN(index);

template<class T, class = void>
struct has_fn_byte_order : std::false_type
{
};
template<class T>
struct has_fn_byte_order<T, void_t<decltype(T::byte_order())>> : std::true_type
{
};
template<class T, bool = has_fn_byte_order<T>::value>
struct put_byte_order
{
    static void go(Obj& o)
    {
        o.kv("has_byte_order", "false");
    }
};
template<class T>
struct put_byte_order<T, true>
{
    static void go(Obj& o)
    {
        o.kv("has_byte_order", "true");
        o.kv("byte_order", str_endian(T::byte_order()));
        o.kv(
            "rt_byte_order",
            std::is_same<decltype(T::byte_order()), sbepp::endian>::value ? "endian" : "?");
    }
};

// ------------------------------------------------------------------ lists --
template<class L>
struct list_str
{
    static void go(std::string& s)
    {
        s += "not-a-type_list";
    }
};
template<>
struct list_str<missing>
{
    static void go(std::string& s)
    {
        s += "none";
    }
};
template<>
struct list_str<sbepp::type_list<>>
{
    static void go(std::string&)
    {
    }
};
template<class H, class... R>
struct list_str<sbepp::type_list<H, R...>>
{
    static void go(std::string& s)
    {
        if(!s.empty())
        {
            s += ",";
        }
        s += tagname<H>::get();
        list_str<sbepp::type_list<R...>>::go(s);
    }
};
template<class L>
std::string list_text()
{
    std::string s;
    list_str<L>::go(s);
    return s;
}

// ------------------------------------------------------- tag-kind predicates --
inline void add_kind(std::string& s, bool b, const char* n)
{
    if(b)
    {
        if(!s.empty())
        {
            s += "+";
        }
        s += n;
    }
}
template<class Tag>
std::string kinds()
{
    std::string s;
    add_kind(s, sbepp::is_type_tag<Tag>::value, "type");
    add_kind(s, sbepp::is_enum_tag<Tag>::value, "enum");
    add_kind(s, sbepp::is_enum_value_tag<Tag>::value, "enum_value");
    add_kind(s, sbepp::is_set_tag<Tag>::value, "set");
    add_kind(s, sbepp::is_set_choice_tag<Tag>::value, "set_choice");
    add_kind(s, sbepp::is_composite_tag<Tag>::value, "composite");
    add_kind(s, sbepp::is_field_tag<Tag>::value, "field");
    add_kind(s, sbepp::is_group_tag<Tag>::value, "group");
    add_kind(s, sbepp::is_data_tag<Tag>::value, "data");
    add_kind(s, sbepp::is_message_tag<Tag>::value, "message");
    add_kind(s, sbepp::is_schema_tag<Tag>::value, "schema");
#if SBEPP_HAS_INLINE_VARS
    // the _v shorthands must agree with the class templates
    std::string v;
    add_kind(v, sbepp::is_type_tag_v<Tag>, "type");
    add_kind(v, sbepp::is_enum_tag_v<Tag>, "enum");
    add_kind(v, sbepp::is_enum_value_tag_v<Tag>, "enum_value");
    add_kind(v, sbepp::is_set_tag_v<Tag>, "set");
    add_kind(v, sbepp::is_set_choice_tag_v<Tag>, "set_choice");
    add_kind(v, sbepp::is_composite_tag_v<Tag>, "composite");
    add_kind(v, sbepp::is_field_tag_v<Tag>, "field");
    add_kind(v, sbepp::is_group_tag_v<Tag>, "group");
    add_kind(v, sbepp::is_data_tag_v<Tag>, "data");
    add_kind(v, sbepp::is_message_tag_v<Tag>, "message");
    add_kind(v, sbepp::is_schema_tag_v<Tag>, "schema");
    if(v != s)
    {
        s += "|_v:" + v;
    }
#endif
    return s.empty() ? "none" : s;
}

// ---------------------------------------------------------- shared pieces --
template<class TT>
void put_value_type(Obj& o)
{
    const bool p = has_value_type<TT>::value;
    const bool t = has_tmpl_value_type<TT>::value;
    o.kv("value_type_form", p ? "plain" : t ? "template" : "none");
    o.kv(
        "value_type",
        p ? vt_desc<typename has_value_type<TT>::type>::get()
          : vt_desc<typename has_tmpl_value_type<TT>::type>::get());
}

template<class TT>
void put_common(Obj& o)
{
    put_name<TT>::go(o);
    put_description<TT>::go(o);
    put_since_version<TT>::go(o);
    put_deprecated<TT>::go(o);
}

// ------------------------------------------------------------------ pass 1 --
template<class Tag>
void emit_type(const char* path)
{
    typedef sbepp::type_traits<Tag> TT;
    Obj o;
    put_common<TT>(o);
    put_presence<TT>::go(o);
    o.kv("primitive_type", prim_name<typename has_primitive_type<TT>::type>::get());
    put_min_value<TT>::go(o);
    put_max_value<TT>::go(o);
    put_null_value<TT>::go(o);
    put_length<TT>::go(o);
    put_offset<TT>::go(o);
    put_semantic_type<TT>::go(o);
    put_character_encoding<TT>::go(o);
    put_value_type<TT>(o);
    o.kv("tag_kinds", kinds<Tag>());
    flush("ENT", path, "type", o);
}

template<class Tag>
void emit_enum(const char* path)
{
    typedef sbepp::enum_traits<Tag> TT;
    Obj o;
    put_common<TT>(o);
    o.kv("encoding_type", prim_name<typename has_encoding_type<TT>::type>::get());
    put_offset<TT>::go(o);
    put_value_type<TT>(o);
    o.kv("value_type_is_enum_over", enum_over<typename has_value_type<TT>::type>::get());
    o.kv("value_tags", list_text<typename has_value_tags<TT>::type>());
    o.kv("tag_kinds", kinds<Tag>());
    flush("ENT", path, "enum", o);
}

template<class Tag>
void emit_enum_value(const char* path)
{
    typedef sbepp::enum_value_traits<Tag> TT;
    Obj o;
    put_common<TT>(o);
    put_value<TT>::go(o);
    o.kv("tag_kinds", kinds<Tag>());
    flush("ENT", path, "enum_value", o);
}

template<class Tag>
void emit_set(const char* path)
{
    typedef sbepp::set_traits<Tag> TT;
    Obj o;
    put_common<TT>(o);
    o.kv("encoding_type", prim_name<typename has_encoding_type<TT>::type>::get());
    put_offset<TT>::go(o);
    put_value_type<TT>(o);
    o.kv("choice_tags", list_text<typename has_choice_tags<TT>::type>());
    o.kv("tag_kinds", kinds<Tag>());
    flush("ENT", path, "set", o);
}

template<class Tag>
void emit_set_choice(const char* path)
{
    typedef sbepp::set_choice_traits<Tag> TT;
    Obj o;
    put_common<TT>(o);
    put_index<TT>::go(o);
    o.kv("tag_kinds", kinds<Tag>());
    flush("ENT", path, "set_choice", o);
}

template<class Tag>
void emit_composite(const char* path)
{
    typedef sbepp::composite_traits<Tag> TT;
    Obj o;
    put_common<TT>(o);
    put_offset<TT>::go(o);
    put_semantic_type<TT>::go(o);
    put_value_type<TT>(o);
    put_size_bytes<TT>::go(o);
    o.kv("element_tags", list_text<typename has_element_tags<TT>::type>());
    o.kv("tag_kinds", kinds<Tag>());
    flush("ENT", path, "composite", o);
}

template<class TT>
void put_level_lists(Obj& o)
{
    o.kv("field_tags", list_text<typename has_field_tags<TT>::type>());
    o.kv("group_tags", list_text<typename has_group_tags<TT>::type>());
    o.kv("data_tags", list_text<typename has_data_tags<TT>::type>());
}

template<class Tag>
void emit_message(const char* path)
{
    typedef sbepp::message_traits<Tag> TT;
    Obj o;
    put_common<TT>(o);
    put_id<TT>::go(o);
    put_block_length<TT>::go(o);
    put_semantic_type<TT>::go(o);
    put_value_type<TT>(o);
    o.kv("schema_tag", tagname<typename has_schema_tag<TT>::type>::get());
    put_level_lists<TT>(o);
    o.kv("tag_kinds", kinds<Tag>());
    flush("ENT", path, "message", o);
}

// the traits of the built-in type behind a field declared with a primitive
// type (type_traits<field_traits<Tag>::value_type_tag>), keys prefixed vt_
template<class VTag, bool = is_builtin_tag<VTag>::value>
struct put_builtin_traits
{
    static void go(Obj&)
    {
    }
};
template<class VTag>
struct put_builtin_traits<VTag, true>
{
    static void go(Obj& o)
    {
        typedef sbepp::type_traits<VTag> TT;
        Obj t;
        t.prefix = "vt_";
        put_presence<TT>::go(t);
        t.kv("primitive_type", prim_name<typename has_primitive_type<TT>::type>::get());
        put_min_value<TT>::go(t);
        put_max_value<TT>::go(t);
        put_null_value<TT>::go(t);
        put_length<TT>::go(t);
        if(!o.body.empty() && !t.body.empty())
        {
            o.body += ",";
        }
        o.body += t.body;
    }
};

template<class Tag>
void emit_field(const char* path)
{
    typedef sbepp::field_traits<Tag> TT;
    Obj o;
    put_common<TT>(o);
    put_id<TT>::go(o);
    put_presence<TT>::go(o);
    put_offset<TT>::go(o);
    put_value_type<TT>(o);
    o.kv("has_value_type_tag", str(static_cast<bool>(has_value_type_tag<TT>::value)));
    if(has_value_type_tag<TT>::value)
    {
        o.kv("value_type_tag", tagname<typename has_value_type_tag<TT>::type>::get());
    }
    put_builtin_traits<typename has_value_type_tag<TT>::type>::go(o);
    o.kv("tag_kinds", kinds<Tag>());
    flush("ENT", path, "field", o);
}

template<class Tag>
void emit_group(const char* path)
{
    typedef sbepp::group_traits<Tag> TT;
    Obj o;
    put_common<TT>(o);
    put_id<TT>::go(o);
    put_block_length<TT>::go(o);
    put_semantic_type<TT>::go(o);
    put_value_type<TT>(o);
    o.kv("entry_type", vt_desc<typename has_tmpl_entry_type<TT>::type>::get());
    o.kv("dimension_type", vt_desc<typename has_tmpl_dimension_type<TT>::type>::get());
    o.kv("dimension_type_tag", tagname<typename has_dimension_type_tag<TT>::type>::get());
    put_level_lists<TT>(o);
    o.kv("tag_kinds", kinds<Tag>());
    flush("ENT", path, "group", o);
}

template<class LT, class = void>
struct length_value_type
{
    static std::string get()
    {
        return "none";
    }
};
template<class LT>
struct length_value_type<LT, void_t<typename LT::value_type>>
{
    static std::string get()
    {
        return vt_desc<typename LT::value_type>::get();
    }
};

template<class TT, class = void>
struct data_size_bytes
{
    static void go(Obj&)
    {
    }
};
template<class TT>
struct data_size_bytes<TT, void_t<decltype(TT::size_bytes(3))>>
{
    static void go(Obj& o)
    {
        o.kv("size_bytes_3", str(TT::size_bytes(3)));
        o.kv("rt_size_bytes", prim_name<decltype(TT::size_bytes(3))>::get());
    }
};

template<class Tag>
void emit_data(const char* path)
{
    typedef sbepp::data_traits<Tag> TT;
    Obj o;
    put_common<TT>(o);
    put_id<TT>::go(o);
    o.kv(
        "value_type_form",
        has_value_type<TT>::value ? "plain" : has_tmpl_value_type<TT>::value ? "template" : "none");
    o.kv("length_type", vt_desc<typename has_length_type<TT>::type>::get());
    o.kv("length_type_tag", tagname<typename has_length_type_tag<TT>::type>::get());
    o.kv("length_type_value_type", length_value_type<typename has_length_type<TT>::type>::get());
    data_size_bytes<TT>::go(o);
    o.kv("tag_kinds", kinds<Tag>());
    flush("ENT", path, "data", o);
}

template<class Tag>
void emit_schema(const char* path)
{
    typedef sbepp::schema_traits<Tag> TT;
    Obj o;
    put_package<TT>::go(o);
    put_id<TT>::go(o);
    put_version<TT>::go(o);
    put_semantic_version<TT>::go(o);
    put_byte_order<TT>::go(o);
    put_description<TT>::go(o);
    o.kv("header_type", vt_desc<typename has_tmpl_header_type<TT>::type>::get());
    o.kv("header_type_tag", tagname<typename has_header_type_tag<TT>::type>::get());
    o.kv("type_tags", list_text<typename has_type_tags<TT>::type>());
    o.kv("message_tags", list_text<typename has_message_tags<TT>::type>());
    o.kv("tag_kinds", kinds<Tag>());
    flush("ENT", path, "schema", o);
}

// additional named expressions the generator writes out itself
template<class V>
void emit_extra(const char* path, const char* trait, V v)
{
    Obj o;
    o.kv(trait, str(v));
    if(std::strncmp(trait, "size_bytes", 10) == 0)
    {
        o.kv("rt_size_bytes", prim_name<V>::get());
    }
    flush("EXTRA", path, "extra", o);
}

// ------------------------------------------------------------------ pass 2 --
enum
{
    K_NONE,
    K_SCHEMA,
    K_MESSAGE,
    K_GROUP,
    K_FIELD,
    K_DATA,
    K_TYPE,
    K_ENUM,
    K_SET,
    K_COMPOSITE,
    K_ENUM_VALUE,
    K_SET_CHOICE
};

// first predicate that holds (the predicates are reported in full as well)
template<class Tag>
struct kind_of
{
    static const int value = sbepp::is_schema_tag<Tag>::value       ? K_SCHEMA
                             : sbepp::is_message_tag<Tag>::value    ? K_MESSAGE
                             : sbepp::is_group_tag<Tag>::value      ? K_GROUP
                             : sbepp::is_field_tag<Tag>::value      ? K_FIELD
                             : sbepp::is_data_tag<Tag>::value       ? K_DATA
                             : sbepp::is_composite_tag<Tag>::value  ? K_COMPOSITE
                             : sbepp::is_enum_tag<Tag>::value       ? K_ENUM
                             : sbepp::is_set_tag<Tag>::value        ? K_SET
                             : sbepp::is_type_tag<Tag>::value       ? K_TYPE
                             : sbepp::is_enum_value_tag<Tag>::value ? K_ENUM_VALUE
                             : sbepp::is_set_choice_tag<Tag>::value ? K_SET_CHOICE
                                                                    : K_NONE;
};

template<class Tag>
void walk();

template<class L>
struct walk_each
{
    static void go()
    {
    }
};
template<class H, class... R>
struct walk_each<sbepp::type_list<H, R...>>
{
    static void go()
    {
        walk<H>();
        walk_each<sbepp::type_list<R...>>::go();
    }
};

template<class Tag, class L>
void walk_list(const char* list)
{
    Obj o;
    o.kv("list", list);
    o.kv("tags", list_text<L>());
    flush("WALK", tagname<Tag>::get(), "list", o);
    walk_each<L>::go();
}

template<class TT>
void visit_line(const char* tag, const char* kinds_text)
{
    Obj o;
    put_name<TT>::go(o);
    put_offset<TT>::go(o);
    o.kv("tag_kinds", kinds_text);
    flush("VISIT", tag, "visit", o);
}

template<class Tag, int K>
struct walker
{
    static void go()
    {
        Obj o;
        o.kv("tag_kinds", kinds<Tag>());
        flush("VISIT", tagname<Tag>::get(), "visit", o);
    }
};
template<class Tag>
struct walker<Tag, K_SCHEMA>
{
    static void go()
    {
        typedef sbepp::schema_traits<Tag> TT;
        Obj o;
        o.kv("tag_kinds", kinds<Tag>());
        flush("VISIT", tagname<Tag>::get(), "visit", o);
        walk_list<Tag, typename has_type_tags<TT>::type>("type_tags");
        walk_list<Tag, typename has_message_tags<TT>::type>("message_tags");
    }
};
template<class Tag, class TT>
void walk_level()
{
    visit_line<TT>(tagname<Tag>::get(), kinds<Tag>().c_str());
    walk_list<Tag, typename has_field_tags<TT>::type>("field_tags");
    walk_list<Tag, typename has_group_tags<TT>::type>("group_tags");
    walk_list<Tag, typename has_data_tags<TT>::type>("data_tags");
}
template<class Tag>
struct walker<Tag, K_MESSAGE>
{
    static void go()
    {
        walk_level<Tag, sbepp::message_traits<Tag>>();
    }
};
template<class Tag>
struct walker<Tag, K_GROUP>
{
    static void go()
    {
        walk_level<Tag, sbepp::group_traits<Tag>>();
    }
};
template<class Tag>
struct walker<Tag, K_FIELD>
{
    static void go()
    {
        visit_line<sbepp::field_traits<Tag>>(tagname<Tag>::get(), kinds<Tag>().c_str());
    }
};
template<class Tag>
struct walker<Tag, K_DATA>
{
    static void go()
    {
        visit_line<sbepp::data_traits<Tag>>(tagname<Tag>::get(), kinds<Tag>().c_str());
    }
};
template<class Tag>
struct walker<Tag, K_TYPE>
{
    static void go()
    {
        visit_line<sbepp::type_traits<Tag>>(tagname<Tag>::get(), kinds<Tag>().c_str());
    }
};
template<class Tag>
struct walker<Tag, K_ENUM_VALUE>
{
    static void go()
    {
        visit_line<sbepp::enum_value_traits<Tag>>(tagname<Tag>::get(), kinds<Tag>().c_str());
    }
};
template<class Tag>
struct walker<Tag, K_SET_CHOICE>
{
    static void go()
    {
        visit_line<sbepp::set_choice_traits<Tag>>(tagname<Tag>::get(), kinds<Tag>().c_str());
    }
};
template<class Tag>
struct walker<Tag, K_ENUM>
{
    static void go()
    {
        typedef sbepp::enum_traits<Tag> TT;
        visit_line<TT>(tagname<Tag>::get(), kinds<Tag>().c_str());
        walk_list<Tag, typename has_value_tags<TT>::type>("value_tags");
    }
};
template<class Tag>
struct walker<Tag, K_SET>
{
    static void go()
    {
        typedef sbepp::set_traits<Tag> TT;
        visit_line<TT>(tagname<Tag>::get(), kinds<Tag>().c_str());
        walk_list<Tag, typename has_choice_tags<TT>::type>("choice_tags");
    }
};
template<class Tag>
struct walker<Tag, K_COMPOSITE>
{
    static void go()
    {
        typedef sbepp::composite_traits<Tag> TT;
        visit_line<TT>(tagname<Tag>::get(), kinds<Tag>().c_str());
        walk_list<Tag, typename has_element_tags<TT>::type>("element_tags");
    }
};

template<class Tag>
void walk()
{
    static bool seen = false; // every tag is expanded once
    if(seen)
    {
        return;
    }
    seen = true;
    walker<Tag, kind_of<Tag>::value>::go();
}
} // namespace c18
