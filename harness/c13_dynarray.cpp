// C13 conformance harness: sbepp::detail::dynamic_array_ref (<data> views)
// against DynArray.tla.
//
//   replay <vectors.ndjson>
//       every TLC-emitted transition {cap,g,pre,act,post,ret} is executed on the
//       real code for this binary's length type x {little,big} x
//       {char,uint8,int8} x {direct template instantiation, <data> member of an
//       sbeppc-generated message} x every C++ spelling of the call.
//       Expected values are fields of the vector; this file only moves bytes.
//   record <seed> <episodes> <len> <cap> <out.ndjson> [skip-class,...]
//       seeded random legal call sequences, logged for DynArrayTrace.tla.
//
// build: -DC13_LEN=8|16|32|64 (one binary per length type) and either
//        -DSBEPP_ENABLE_ASSERTS_WITH_HANDLER (a legal call that reaches the
//        assertion handler is a MISMATCH ".../asserted") or
//        -DSBEPP_DISABLE_ASSERTS (functional behaviour only).
#include "vh.hpp"

#include <sbepp/sbepp.hpp>
// The generated message headers are included one by one: the two top-level
// headers <c13le/c13le.hpp> and <c13be/c13be.hpp> have identical text (only
// relative includes), and GCC's `#pragma once` then takes them for one file.

#include <csetjmp>
#include <csignal>
#include <unistd.h>
#include <utility>
#include <forward_list>
#include <iterator>
#include <list>
#if SBEPP_HAS_RANGES
#    include <ranges>
#    include <span>
#endif

using namespace vh;

#ifndef C13_LEN
#    error "define C13_LEN"
#endif

#define C13_CAT_(a, b) a##b
#define C13_CAT(a, b) C13_CAT_(a, b)
#if C13_LEN == 8
#    include <c13le/messages/m_uint8_char.hpp>
#    include <c13le/messages/m_uint8_uint8.hpp>
#    include <c13le/messages/m_uint8_int8.hpp>
#    include <c13be/messages/m_uint8_char.hpp>
#    include <c13be/messages/m_uint8_uint8.hpp>
#    include <c13be/messages/m_uint8_int8.hpp>
using sbe_len = sbepp::uint8_t;
#    define C13_LT uint8
static const char* const kLen = "uint8";
static const char* const kWKey = "w1";
#elif C13_LEN == 16
#    include <c13le/messages/m_uint16_char.hpp>
#    include <c13le/messages/m_uint16_uint8.hpp>
#    include <c13le/messages/m_uint16_int8.hpp>
#    include <c13be/messages/m_uint16_char.hpp>
#    include <c13be/messages/m_uint16_uint8.hpp>
#    include <c13be/messages/m_uint16_int8.hpp>
using sbe_len = sbepp::uint16_t;
#    define C13_LT uint16
static const char* const kLen = "uint16";
static const char* const kWKey = "w2";
#elif C13_LEN == 32
#    include <c13le/messages/m_uint32_char.hpp>
#    include <c13le/messages/m_uint32_uint8.hpp>
#    include <c13le/messages/m_uint32_int8.hpp>
#    include <c13be/messages/m_uint32_char.hpp>
#    include <c13be/messages/m_uint32_uint8.hpp>
#    include <c13be/messages/m_uint32_int8.hpp>
using sbe_len = sbepp::uint32_t;
#    define C13_LT uint32
static const char* const kLen = "uint32";
static const char* const kWKey = "w4";
#else
#    include <c13le/messages/m_uint64_char.hpp>
#    include <c13le/messages/m_uint64_uint8.hpp>
#    include <c13le/messages/m_uint64_int8.hpp>
#    include <c13be/messages/m_uint64_char.hpp>
#    include <c13be/messages/m_uint64_uint8.hpp>
#    include <c13be/messages/m_uint64_int8.hpp>
using sbe_len = sbepp::uint64_t;
#    define C13_LT uint64
static const char* const kLen = "uint64";
static const char* const kWKey = "w8";
#endif
static const std::size_t W = C13_LEN / 8;
// generated message class  <pkg>::messages::m_<len>_<elem><char>
#define C13_MSG(pkg, elem) \
    pkg::messages::C13_CAT(C13_CAT(C13_CAT(m_, C13_LT), _), elem)<char>

// ------------------------------------------------------ assertion handler --
static std::jmp_buf g_jb;
static volatile bool g_armed = false;
static struct
{
    volatile bool asserted;
    volatile long line;
    const char* volatile expr;
    volatile long ret;
    volatile unsigned long long size;
} g_out;

namespace sbepp
{
[[noreturn]] void assertion_failed(
    char const* expr, char const* function, char const* file, long line);
[[noreturn]] void assertion_failed(
    char const* expr, char const* function, char const*, long line)
{
    g_out.line = line;
    g_out.expr = expr;
    if(g_armed)
    {
        std::longjmp(g_jb, 1);
    }
    std::fprintf(
        stderr, "unexpected sbepp assertion %s in %s:%ld\n", expr, function, line);
    std::abort();
}
} // namespace sbepp

// ---------------------------------------------------------- crash reporter --
// A call the spec considers legal may still run off the buffer in the real
// code (e.g. a wrong size read back in a build without asserts).  The fatal
// signal is reported as a line "CRASH {...}" naming the vector being executed.
static volatile unsigned long long g_cur_line = 0;
static const char* volatile g_cur_inst = "";
static const char* volatile g_cur_op = "";
static const char* volatile g_cur_sp = "";

static void put(const char* s)
{
    std::size_t n = 0;
    while(s[n])
        n++;
    if(::write(1, s, n) < 0)
    {
    }
}

static void crash_handler(int sig)
{
    char num[32];
    int k = 31;
    num[k] = 0;
    unsigned long long v = g_cur_line;
    do
    {
        num[--k] = static_cast<char>('0' + v % 10);
        v /= 10;
    } while(v);
    put("\nCRASH {\"line\":");
    put(num + k);
    put(",\"inst\":\"");
    put(g_cur_inst);
    put("\",\"op\":\"");
    put(g_cur_op);
    put("\",\"sp\":\"");
    put(g_cur_sp);
    put("\",\"signal\":");
    char sg[4] = {0, 0, 0, 0};
    if(sig >= 10)
    {
        sg[0] = static_cast<char>('0' + (sig / 10) % 10);
        sg[1] = static_cast<char>('0' + sig % 10);
    }
    else
    {
        sg[0] = static_cast<char>('0' + sig);
    }
    put(sg);
    put("}\n");
    ::_exit(70);
}

static void install_crash_handler()
{
    std::cout.setf(std::ios::unitbuf); // nothing printed so far may be lost
    std::signal(SIGSEGV, crash_handler);
    std::signal(SIGBUS, crash_handler);
    std::signal(SIGABRT, crash_handler);
    std::signal(SIGFPE, crash_handler);
    std::signal(SIGILL, crash_handler);
}

// All objects with destructors live in the caller; f only calls sbepp.
template<typename F>
void guarded(F& f)
{
    g_out.asserted = false;
    g_out.line = 0;
    g_out.expr = "";
    g_out.ret = -1;
    g_armed = true;
    if(setjmp(g_jb) == 0)
    {
        f();
    }
    else
    {
        g_out.asserted = true;
    }
    g_armed = false;
}

// ----------------------------------------------------------- call model ----
enum op_t
{
    PUSH_BACK,
    POP_BACK,
    INSERT,
    INSERT_N,
    INSERT_RANGE,
    INSERT_ILIST,
    ERASE,
    ERASE_RANGE,
    RESIZE,
    RESIZE_V,
    RESIZE_DI,
    ASSIGN_N,
    ASSIGN_RANGE_IT,
    ASSIGN_ILIST,
    ASSIGN_STRING,
    ASSIGN_RANGE,
    CLEAR,
    N_OPS
};
static const char* const kOpName[N_OPS] = {
    "push_back",    "pop_back",        "insert",       "insert_n",
    "insert_range", "insert_ilist",    "erase",        "erase_range",
    "resize",       "resize_v",        "resize_di",    "assign_n",
    "assign_range_it", "assign_ilist", "assign_string", "assign_range",
    "clear"};

static op_t op_of(const std::string& s)
{
    for(int i = 0; i < N_OPS; i++)
    {
        if(s == kOpName[i])
            return static_cast<op_t>(i);
    }
    std::fprintf(stderr, "unknown op %s\n", s.c_str());
    std::exit(3);
}

static const std::vector<const char*>& spellings(op_t op)
{
    static const std::vector<const char*> one = {""};
    static const std::vector<const char*> ins = {
        "ptr", "vec", "list", "fwdlist", "input"};
    static const std::vector<const char*> asg = {"ptr", "list", "input"};
    static const std::vector<const char*> rng = {
        "vec",
        "list",
        "vec_rv",
#if SBEPP_HAS_RANGES
        "span",
        "sentinel",
#endif
    };
    switch(op)
    {
    case INSERT_RANGE:
        return ins;
    case ASSIGN_RANGE_IT:
        return asg;
    case ASSIGN_RANGE:
        return rng;
    default:
        return one;
    }
}

struct call
{
    op_t op;
    long pos, pos2, n;
    int v;    // element as byte value (0..255), -1 if absent
    bytes vs; // elements as byte values
};

// argument class used in signatures and for record-mode skipping
static std::string
    argclass(const call& c, std::size_t old_size, std::size_t new_size)
{
    switch(c.op)
    {
    case ERASE_RANGE:
        return static_cast<std::size_t>(c.pos2) == old_size ? "last=end"
                                                            : "last<end";
    case INSERT:
    case INSERT_N:
    case INSERT_RANGE:
    case INSERT_ILIST:
        return static_cast<std::size_t>(c.pos) == old_size ? "pos=end"
                                                           : "pos<end";
    case RESIZE:
    case RESIZE_V:
    case RESIZE_DI:
    case ASSIGN_N:
    case ASSIGN_RANGE_IT:
    case ASSIGN_ILIST:
    case ASSIGN_STRING:
    case ASSIGN_RANGE:
        return new_size > old_size ? "grow"
               : new_size < old_size ? "shrink"
                                     : "same";
    default:
        return "any";
    }
}

template<typename V>
V to_v(int b)
{
    return static_cast<V>(static_cast<unsigned char>(b));
}

template<typename V>
struct in_it
{
    using iterator_category = std::input_iterator_tag;
    using value_type = V;
    using difference_type = std::ptrdiff_t;
    using pointer = const V*;
    using reference = const V&;
    const std::vector<V>* v;
    std::size_t i;
    reference operator*() const
    {
        return (*v)[i];
    }
    in_it& operator++()
    {
        ++i;
        return *this;
    }
    in_it operator++(int)
    {
        in_it t = *this;
        ++i;
        return t;
    }
    bool operator==(const in_it& o) const
    {
        return i == o.i;
    }
    bool operator!=(const in_it& o) const
    {
        return i != o.i;
    }
};

#if SBEPP_HAS_RANGES
// range whose end() is a sentinel type (only std::ranges::copy can take it)
template<typename V>
struct sent_range
{
    struct sentinel
    {
        const V* e;
        friend bool operator==(const V* p, const sentinel& s)
        {
            return p == s.e;
        }
    };
    const V* b;
    const V* e;
    const V* begin() const
    {
        return b;
    }
    sentinel end() const
    {
        return sentinel{e};
    }
};
#endif

static const std::size_t kMaxIList = 6;

// calls f(std::initializer_list<V>{x...}) for x.size() <= kMaxIList
template<typename V, typename F>
void with_ilist(const std::vector<V>& x, F& f)
{
    using IL = std::initializer_list<V>;
    switch(x.size())
    {
    case 0:
        f(IL{});
        break;
    case 1:
        f(IL{x[0]});
        break;
    case 2:
        f(IL{x[0], x[1]});
        break;
    case 3:
        f(IL{x[0], x[1], x[2]});
        break;
    case 4:
        f(IL{x[0], x[1], x[2], x[3]});
        break;
    case 5:
        f(IL{x[0], x[1], x[2], x[3], x[4]});
        break;
    case 6:
        f(IL{x[0], x[1], x[2], x[3], x[4], x[5]});
        break;
    default:
        std::fprintf(stderr, "ilist too long\n");
        std::exit(3);
    }
}

// Performs one call on the real view; outcome in g_out (asserted, ret, size).
template<typename DA>
void perform(DA d, const call& c, const std::string& sp)
{
    using V = typename DA::value_type;
    using S = typename DA::size_type;
    using It = typename DA::iterator;
    const V x = to_v<V>(c.v < 0 ? 0 : c.v);
    std::vector<V> xs;
    for(auto b : c.vs)
        xs.push_back(to_v<V>(b));
    const long pos = c.pos, pos2 = c.pos2;
    const S n = static_cast<S>(c.n < 0 ? 0 : c.n);

    switch(c.op)
    {
    case PUSH_BACK:
    {
        auto f = [&] { d.push_back(x); };
        guarded(f);
        break;
    }
    case POP_BACK:
    {
        auto f = [&] { d.pop_back(); };
        guarded(f);
        break;
    }
    case INSERT:
    {
        auto f = [&]
        {
            It it = d.insert(d.begin() + pos, x);
            g_out.ret = it - d.begin();
        };
        guarded(f);
        break;
    }
    case INSERT_N:
    {
        auto f = [&]
        {
            It it = d.insert(d.begin() + pos, n, x);
            g_out.ret = it - d.begin();
        };
        guarded(f);
        break;
    }
    case INSERT_RANGE:
    {
        if(sp == "ptr")
        {
            const V* b = xs.data();
            const V* e = xs.data() + xs.size();
            auto f = [&]
            {
                It it = d.insert(d.begin() + pos, b, e);
                g_out.ret = it - d.begin();
            };
            guarded(f);
        }
        else if(sp == "vec")
        {
            auto f = [&]
            {
                It it = d.insert(d.begin() + pos, xs.cbegin(), xs.cend());
                g_out.ret = it - d.begin();
            };
            guarded(f);
        }
        else if(sp == "list")
        {
            std::list<V> l(xs.begin(), xs.end());
            auto f = [&]
            {
                It it = d.insert(d.begin() + pos, l.begin(), l.end());
                g_out.ret = it - d.begin();
            };
            guarded(f);
        }
        else if(sp == "fwdlist")
        {
            std::forward_list<V> l(xs.begin(), xs.end());
            auto f = [&]
            {
                It it = d.insert(d.begin() + pos, l.begin(), l.end());
                g_out.ret = it - d.begin();
            };
            guarded(f);
        }
        else
        {
            in_it<V> b{&xs, 0}, e{&xs, xs.size()};
            auto f = [&]
            {
                It it = d.insert(d.begin() + pos, b, e);
                g_out.ret = it - d.begin();
            };
            guarded(f);
        }
        break;
    }
    case INSERT_ILIST:
    {
        auto g = [&](std::initializer_list<V> il)
        {
            auto f = [&]
            {
                It it = d.insert(d.begin() + pos, il);
                g_out.ret = it - d.begin();
            };
            guarded(f);
        };
        with_ilist(xs, g);
        break;
    }
    case ERASE:
    {
        auto f = [&]
        {
            It it = d.erase(d.begin() + pos);
            g_out.ret = it - d.begin();
        };
        guarded(f);
        break;
    }
    case ERASE_RANGE:
    {
        auto f = [&]
        {
            It it = d.erase(d.begin() + pos, d.begin() + pos2);
            g_out.ret = it - d.begin();
        };
        guarded(f);
        break;
    }
    case RESIZE:
    {
        auto f = [&] { d.resize(n); };
        guarded(f);
        break;
    }
    case RESIZE_V:
    {
        auto f = [&] { d.resize(n, x); };
        guarded(f);
        break;
    }
    case RESIZE_DI:
    {
        auto f = [&] { d.resize(n, sbepp::default_init); };
        guarded(f);
        break;
    }
    case ASSIGN_N:
    {
        auto f = [&] { d.assign(n, x); };
        guarded(f);
        break;
    }
    case ASSIGN_RANGE_IT:
    {
        if(sp == "ptr")
        {
            const V* b = xs.data();
            const V* e = xs.data() + xs.size();
            auto f = [&] { d.assign(b, e); };
            guarded(f);
        }
        else if(sp == "list")
        {
            std::list<V> l(xs.begin(), xs.end());
            auto f = [&] { d.assign(l.begin(), l.end()); };
            guarded(f);
        }
        else
        {
            in_it<V> b{&xs, 0}, e{&xs, xs.size()};
            auto f = [&] { d.assign(b, e); };
            guarded(f);
        }
        break;
    }
    case ASSIGN_ILIST:
    {
        auto g = [&](std::initializer_list<V> il)
        {
            auto f = [&] { d.assign(il); };
            guarded(f);
        };
        with_ilist(xs, g);
        break;
    }
    case ASSIGN_STRING:
    {
        std::string s;
        for(auto b : c.vs)
            s.push_back(static_cast<char>(b));
        const char* p = s.c_str();
        auto f = [&] { d.assign_string(p); };
        guarded(f);
        break;
    }
    case ASSIGN_RANGE:
    {
        if(sp == "vec")
        {
            auto f = [&] { d.assign_range(xs); };
            guarded(f);
        }
        else if(sp == "list")
        {
            std::list<V> l(xs.begin(), xs.end());
            auto f = [&] { d.assign_range(l); };
            guarded(f);
        }
        else if(sp == "vec_rv")
        {
            auto f = [&] { d.assign_range(std::move(xs)); };
            guarded(f);
        }
#if SBEPP_HAS_RANGES
        else if(sp == "span")
        {
            std::span<const V> s{xs.data(), xs.size()};
            auto f = [&] { d.assign_range(s); };
            guarded(f);
        }
        else if(sp == "sentinel")
        {
            // a non-common range: end() is a sentinel, not an iterator
            sent_range<V> sr{xs.data(), xs.data() + xs.size()};
            auto f = [&] { d.assign_range(sr); };
            guarded(f);
        }
#endif
        else
        {
            std::fprintf(stderr, "unknown spelling %s\n", sp.c_str());
            std::exit(3);
        }
        break;
    }
    case CLEAR:
    {
        auto f = [&] { d.clear(); };
        guarded(f);
        break;
    }
    default:
        std::exit(3);
    }
    if(!g_out.asserted)
    {
        // read the size back through the real decoder
        const long r = g_out.ret;
        auto f = [&] { g_out.size = static_cast<unsigned long long>(d.size()); };
        guarded(f);
        g_out.ret = r;
    }
}

// ------------------------------------------------------------- memory ------
// [front guard F][header H (generated message only)][prefix W][cells N][rear R]
// the view is given exactly header + prefix + cap bytes
struct arena
{
    static const std::size_t F = 16, R = 16;
    std::size_t hdr, ncells, cap;
    bytes b, snap;

    static std::uint8_t pat(std::size_t j)
    {
        return static_cast<std::uint8_t>(0x60 + (j % 29));
    }
    void
        layout(std::size_t hdr_, std::size_t ncells_, std::size_t cap_)
    {
        hdr = hdr_;
        ncells = ncells_;
        cap = cap_;
        b.resize(F + hdr + W + ncells + R);
        for(std::size_t j = 0; j < b.size(); j++)
            b[j] = pat(j);
    }
    std::size_t pfx_off() const
    {
        return F + hdr;
    }
    std::size_t cell_off(std::size_t i) const
    {
        return F + hdr + W + i;
    }
    char* view_begin()
    {
        return reinterpret_cast<char*>(b.data()) + F;
    }
    std::size_t view_len() const
    {
        return hdr + W + cap;
    }
    bytes prefix() const
    {
        return bytes(b.begin() + pfx_off(), b.begin() + pfx_off() + W);
    }
    // true iff some byte outside prefix and cell area differs from snapshot
    bool outside_changed() const
    {
        for(std::size_t j = 0; j < b.size(); j++)
        {
            if(j >= pfx_off() && j < cell_off(ncells))
                continue;
            if(b[j] != snap[j])
                return true;
        }
        return false;
    }
};

// ---------------------------------------------------------- instantiations --
template<typename V>
struct elem_name;
template<>
struct elem_name<char>
{
    static const char* get()
    {
        return "char";
    }
};
template<>
struct elem_name<std::uint8_t>
{
    static const char* get()
    {
        return "uint8";
    }
};
template<>
struct elem_name<std::int8_t>
{
    static const char* get()
    {
        return "int8";
    }
};

template<typename V, sbepp::endian E>
struct direct_inst
{
    using DA = sbepp::detail::dynamic_array_ref<char, V, sbe_len, E>;
    static const std::size_t hdr = 0;
    static void prepare(char*, std::size_t)
    {
    }
    static DA make(char* p, std::size_t n)
    {
        return DA{p, n};
    }
    static const char* path()
    {
        return "direct";
    }
    static const char* order()
    {
        return E == sbepp::endian::little ? "le" : "be";
    }
    static const char* elem()
    {
        return elem_name<V>::get();
    }
};

template<typename Msg, bool Little>
struct gen_inst
{
    using DA = decltype(std::declval<Msg>().d());
    static const std::size_t hdr = 8;
    static void prepare(char* p, std::size_t n)
    {
        Msg m{p, n};
        sbepp::fill_message_header(m);
    }
    static DA make(char* p, std::size_t n)
    {
        Msg m{p, n};
        return m.d();
    }
    static const char* path()
    {
        return "generated";
    }
    static const char* order()
    {
        return Little ? "le" : "be";
    }
    static const char* elem()
    {
        return elem_name<typename DA::value_type>::get();
    }
};

template<typename I>
std::string inst_name()
{
    return std::string("len=") + kLen + " order=" + I::order()
           + " elem=" + I::elem() + " path=" + I::path();
}

static report rep;

// ------------------------------------------------------------- replay ------
struct vec_t
{
    std::size_t cap, g;
    std::size_t pre_size, post_size;
    std::vector<int> pre_mem, post_mem;
    bytes pre_le, pre_be, post_le, post_be; // prefix images for this width
    call act;
    long ret;
    bool nontrivial;
    const json* raw;
};

static std::vector<int> ints(const json& j)
{
    std::vector<int> r;
    for(const auto& x : j)
        r.push_back(x.get<int>());
    return r;
}

// spec letters -> bytes: 0 value-initialised element, 1 and 2 the alphabet
// (one of them > 127 so that signed element types are exercised), 3 the
// background value of cells no call has written yet (it can become an element
// through resize(n, default_init), so it is one fixed byte; the regions the
// spec does not model - in front of the prefix and behind the guard cells -
// carry a position-dependent pattern instead)
static std::uint8_t letter_byte(int letter)
{
    switch(letter)
    {
    case 0:
        return 0x00;
    case 1:
        return 0x41;
    case 2:
        return 0xC2;
    default:
        return 0x7E;
    }
}

static vec_t parse_vec(const json& j)
{
    vec_t v;
    v.raw = &j;
    v.cap = j["cap"].get<std::size_t>();
    v.g = j["g"].get<std::size_t>();
    v.pre_size = j["pre"]["size"].get<std::size_t>();
    v.post_size = j["post"]["size"].get<std::size_t>();
    v.pre_mem = ints(j["pre"]["mem"]);
    v.post_mem = ints(j["post"]["mem"]);
    v.pre_le = to_bytes(j["pre"]["pfx"][kWKey]["le"]);
    v.pre_be = to_bytes(j["pre"]["pfx"][kWKey]["be"]);
    v.post_le = to_bytes(j["post"]["pfx"][kWKey]["le"]);
    v.post_be = to_bytes(j["post"]["pfx"][kWKey]["be"]);
    const json& a = j["act"];
    v.act.op = op_of(a["op"].get<std::string>());
    v.act.pos = a["pos"].get<long>();
    v.act.pos2 = a["pos2"].get<long>();
    v.act.n = a["n"].get<long>();
    const int lv = a["v"].get<int>();
    v.act.v = lv < 0 ? -1 : letter_byte(lv);
    for(const auto& x : a["vs"])
        v.act.vs.push_back(letter_byte(x.get<int>()));
    v.ret = j["ret"].get<long>();
    v.nontrivial = v.ret != -1 || v.pre_size != v.post_size
                   || v.pre_mem != v.post_mem;
    return v;
}

template<typename I>
void replay_inst(const vec_t& v)
{
    static arena a;
    static const std::string iname = inst_name<I>();
    g_cur_inst = iname.c_str();
    const bool little = std::string(I::order()) == "le";
    const bytes& pre_pfx = little ? v.pre_le : v.pre_be;
    const bytes& post_pfx = little ? v.post_le : v.post_be;
    const std::string opn = kOpName[v.act.op];
    const std::string cls = argclass(v.act, v.pre_size, v.post_size);

    for(const char* spc : spellings(v.act.op))
    {
        const std::string sp = spc;
        const std::string sig0 = (sp.empty() ? opn : opn + "." + sp) + "/" + cls;
        // inject pre
        a.layout(I::hdr, v.pre_mem.size(), v.cap);
        I::prepare(a.view_begin(), a.view_len());
        for(std::size_t k = 0; k < W; k++)
            a.b[a.pfx_off() + k] = pre_pfx[k];
        for(std::size_t i = 0; i < a.ncells; i++)
            a.b[a.cell_off(i)] = letter_byte(v.pre_mem[i]);
        a.snap = a.b;

        g_cur_op = kOpName[v.act.op];
        g_cur_sp = spc;
        perform(I::make(a.view_begin(), a.view_len()), v.act, sp);

        auto cs = [&]
        {
            json c;
            c["inst"] = inst_name<I>();
            c["spelling"] = sp;
            c["vector"] = *v.raw;
            c["got"] = {
                {"asserted", static_cast<bool>(g_out.asserted)},
                {"assert_expr", std::string(g_out.expr ? g_out.expr : "")},
                {"assert_line", static_cast<long>(g_out.line)},
                {"ret", static_cast<long>(g_out.ret)},
                {"size", static_cast<unsigned long long>(g_out.size)},
                {"prefix", hex(a.prefix())},
                {"area",
                 hex(bytes(
                     a.b.begin() + a.cell_off(0),
                     a.b.begin() + a.cell_off(a.ncells)))}};
            return c;
        };
        const std::string where = "[" + inst_name<I>() + (sp.empty() ? "" : " spelling=" + sp) + "] " + opn;

        if(g_out.asserted)
        {
            rep.mismatch(
                sig0 + "/asserted",
                where + ": legal call (valid for std::vector) invoked the assertion handler: `"
                    + std::string(g_out.expr) + "` at sbepp.hpp:"
                    + std::to_string(g_out.line),
                cs());
            continue;
        }
        bool good = true;
        if(g_out.size != v.post_size)
        {
            good = false;
            rep.mismatch(
                sig0 + "/size",
                where + ": size() = " + std::to_string(g_out.size) + ", spec "
                    + std::to_string(v.post_size),
                cs());
        }
        if(a.prefix() != post_pfx)
        {
            good = false;
            rep.mismatch(
                sig0 + "/prefix",
                where + ": length prefix bytes " + hex(a.prefix()) + ", spec "
                    + hex(post_pfx),
                cs());
        }
        bool payload_ok = true, frame_ok = true;
        const std::size_t hi = v.pre_size > v.post_size ? v.pre_size : v.post_size;
        for(std::size_t i = 0; i < a.ncells; i++)
        {
            if(v.post_mem[i] < 0)
                continue; // unspecified by the documentation
            if(a.b[a.cell_off(i)] != letter_byte(v.post_mem[i]))
            {
                if(i < hi)
                    payload_ok = false;
                else
                    frame_ok = false;
            }
        }
        if(a.outside_changed())
            frame_ok = false;
        if(!payload_ok)
        {
            good = false;
            rep.mismatch(
                sig0 + "/payload", where + ": payload differs from the vector's contents", cs());
        }
        if(!frame_ok)
        {
            good = false;
            rep.mismatch(
                sig0 + "/frame",
                where + ": a byte outside length prefix and payload in use was modified",
                cs());
        }
        if(g_out.ret != v.ret)
        {
            good = false;
            rep.mismatch(
                sig0 + "/iter",
                where + ": returned iterator at offset " + std::to_string(g_out.ret)
                    + ", spec " + std::to_string(v.ret),
                cs());
        }
        if(good)
            rep.ok(opn);
    }
}

#define FOR_EACH_INST(X)                                                     \
    X((direct_inst<char, sbepp::endian::little>))                            \
    X((direct_inst<std::uint8_t, sbepp::endian::little>))                    \
    X((direct_inst<std::int8_t, sbepp::endian::little>))                     \
    X((direct_inst<char, sbepp::endian::big>))                               \
    X((direct_inst<std::uint8_t, sbepp::endian::big>))                       \
    X((direct_inst<std::int8_t, sbepp::endian::big>))                        \
    X((gen_inst<C13_MSG(c13le, char), true>))                                \
    X((gen_inst<C13_MSG(c13le, uint8), true>))                               \
    X((gen_inst<C13_MSG(c13le, int8), true>))                                \
    X((gen_inst<C13_MSG(c13be, char), false>))                               \
    X((gen_inst<C13_MSG(c13be, uint8), false>))                              \
    X((gen_inst<C13_MSG(c13be, int8), false>))

template<typename T>
struct unparen;
template<typename T>
struct unparen<void(T)>
{
    using type = T;
};
#define UNPAREN(X) typename unparen<void X>::type
#define UNPAREN_NT(X) unparen<void X>::type

static const int kNumInst = 12;

// ------------------------------------------------------------- record ------
static const std::uint8_t kAlphabet[] = {
    0x01, 0x02, 0x11, 0x22, 0x33, 0x41, 0x42, 0x5A,
    0x7F, 0x80, 0x81, 0xA5, 0xC2, 0xE7, 0xFE, 0xFF};

static json call_json(const call& c, const std::string& sp)
{
    json j;
    j["e"] = kOpName[c.op];
    j["pos"] = c.pos;
    j["pos2"] = c.pos2;
    j["n"] = c.n;
    j["v"] = c.v;
    j["vs"] = from_bytes(c.vs);
    j["sp"] = sp;
    return j;
}

static json ints_json(const arena& a)
{
    json m = json::array();
    for(std::size_t i = 0; i < a.ncells; i++)
        m.push_back(static_cast<int>(a.b[a.cell_off(i)]));
    return m;
}

template<typename I>
void record_episode(
    rng& r,
    int len,
    std::size_t cap,
    std::size_t g,
    const std::set<std::string>& skip,
    std::ostream& out)
{
    arena a;
    a.layout(I::hdr, cap + g, cap);
    I::prepare(a.view_begin(), a.view_len());
    // initial contents: written by the harness through the public interface of
    // the view is avoided on purpose - raw bytes, then read back and logged
    {
        // all-zero prefix = empty array in either byte order
        for(std::size_t k = 0; k < W; k++)
            a.b[a.pfx_off() + k] = 0;
    }
    {
        json j;
        j["e"] = "Reset";
        j["w"] = W;
        j["order"] = I::order();
        j["elem"] = I::elem();
        j["path"] = I::path();
        j["cap"] = cap;
        j["size"] = 0;
        j["pfx"] = from_bytes(a.prefix());
        j["mem"] = ints_json(a);
        out << j.dump() << std::endl;
    }
    std::size_t size = 0;
    const std::size_t big = cap > 255 ? 1 : 0; // large-capacity episodes use long arguments
    for(int k = 0; k < len;)
    {
        call c;
        c.pos = c.pos2 = c.n = -1;
        c.v = -1;
        c.op = static_cast<op_t>(r.below(N_OPS));
        if(c.op == CLEAR && r.below(4))
            continue; // keep episodes from collapsing too often
        const std::size_t room = cap - size;
        auto val = [&]() -> int
        { return kAlphabet[r.below(sizeof(kAlphabet))]; };
        auto val0 = [&]() -> int { return r.below(12) == 0 ? 0 : val(); };
        auto small = [&](std::size_t lim, std::size_t pref) -> std::size_t
        {
            // mostly short, sometimes up to the limit
            const std::size_t m = lim < pref ? lim : pref;
            return r.below(5) == 0 ? r.below(lim + 1) : r.below(m + 1);
        };
        auto position = [&]() -> long
        {
            const auto w = r.below(6);
            return w == 0 ? 0 : w == 1 ? static_cast<long>(size) : static_cast<long>(r.below(size + 1));
        };
        auto seqvals = [&](std::size_t n)
        {
            for(std::size_t i = 0; i < n; i++)
                c.vs.push_back(static_cast<std::uint8_t>(val()));
        };
        std::size_t new_size = size;
        switch(c.op)
        {
        case PUSH_BACK:
            if(!room)
                continue;
            c.v = val0();
            new_size = size + 1;
            break;
        case POP_BACK:
            if(!size)
                continue;
            new_size = size - 1;
            break;
        case INSERT:
            if(!room)
                continue;
            c.pos = position();
            c.v = val0();
            new_size = size + 1;
            break;
        case INSERT_N:
            c.pos = position();
            c.n = static_cast<long>(small(room, big ? 300 : 5));
            c.v = val0();
            new_size = size + c.n;
            break;
        case INSERT_RANGE:
            c.pos = position();
            seqvals(small(room, big ? 300 : 7));
            new_size = size + c.vs.size();
            break;
        case INSERT_ILIST:
            c.pos = position();
            seqvals(small(room < kMaxIList ? room : kMaxIList, kMaxIList));
            new_size = size + c.vs.size();
            break;
        case ERASE:
            if(!size)
                continue;
            c.pos = static_cast<long>(r.below(size));
            new_size = size - 1;
            break;
        case ERASE_RANGE:
        {
            c.pos = position();
            const std::size_t avail = size - c.pos;
            const std::size_t cnt = r.below(4) == 0 ? avail : small(avail, 5);
            c.pos2 = c.pos + static_cast<long>(cnt);
            new_size = size - cnt;
            break;
        }
        case RESIZE:
        case RESIZE_V:
        case RESIZE_DI:
        {
            const std::size_t lo = size > 6 ? size - 6 : 0;
            const std::size_t hi = size + 6 < cap ? size + 6 : cap;
            c.n = static_cast<long>(
                r.below(8) == 0 ? r.below(cap + 1) : lo + r.below(hi - lo + 1));
            if(c.op == RESIZE_V)
                c.v = val0();
            new_size = c.n;
            break;
        }
        case ASSIGN_N:
            c.n = static_cast<long>(small(cap, big ? 400 : 24));
            c.v = val0();
            new_size = c.n;
            break;
        case ASSIGN_RANGE_IT:
        case ASSIGN_STRING:
        case ASSIGN_RANGE:
            seqvals(small(cap, big ? 400 : 16));
            new_size = c.vs.size();
            break;
        case ASSIGN_ILIST:
            seqvals(small(cap < kMaxIList ? cap : kMaxIList, kMaxIList));
            new_size = c.vs.size();
            break;
        case CLEAR:
            new_size = 0;
            break;
        default:
            continue;
        }
        if(skip.count(std::string(kOpName[c.op]) + ":" + argclass(c, size, new_size)))
            continue;
        const auto& sps = spellings(c.op);
        const std::string sp = sps[r.below(sps.size())];

        a.snap = a.b;
        g_cur_line = static_cast<unsigned long long>(k);
        g_cur_op = kOpName[c.op];
        perform(I::make(a.view_begin(), a.view_len()), c, sp);

        json j = call_json(c, sp);
        j["asserted"] = static_cast<bool>(g_out.asserted);
        j["ret"] = static_cast<long>(g_out.ret);
        j["size"] = g_out.asserted ? -1 : static_cast<long long>(g_out.size);
        j["pfx"] = from_bytes(a.prefix());
        j["mem"] = ints_json(a);
        j["outside"] = a.outside_changed();
        out << j.dump() << std::endl;
        rep.ok(kOpName[c.op]);
        if(g_out.asserted)
        {
            // the log already shows it; nothing sensible can follow
            return;
        }
        size = static_cast<std::size_t>(g_out.size);
        if(size > cap)
            return; // the log shows it; continuing would leave the buffer
        k++;
    }
}

int main(int argc, char** argv)
{
    install_crash_handler();
    if(argc >= 3 && std::string(argv[1]) == "replay")
    {
        std::uint64_t nvec = 0, nontrivial = 0;
        for_each_line(
            argv[2],
            [&](const json& j)
            {
                const vec_t v = parse_vec(j);
                nvec++;
                g_cur_line = nvec;
                nontrivial += v.nontrivial;
#define X(I) replay_inst<UNPAREN_NT(I)>(v);
                FOR_EACH_INST(X)
#undef X
            });
        json extra;
        extra["vectors"] = nvec;
        extra["nontrivial_vectors"] = nontrivial;
        extra["instantiations"] = kNumInst;
        extra["len"] = kLen;
        rep.finish(extra);
        return 0;
    }
    if(argc >= 7 && std::string(argv[1]) == "record")
    {
        rng r(std::stoull(argv[2]));
        const int episodes = std::stoi(argv[3]);
        const int len = std::stoi(argv[4]);
        const std::size_t cap = std::stoull(argv[5]);
        std::ofstream out(argv[6]);
        std::set<std::string> skip;
        if(argc >= 8)
        {
            std::stringstream ss(argv[7]);
            std::string s;
            while(std::getline(ss, s, ','))
                if(!s.empty())
                    skip.insert(s);
        }
        const std::size_t g = 4;
        // every instantiation in turn, starting at a seeded offset
        const int first = static_cast<int>(r.below(kNumInst));
        for(int e = 0; e < episodes; e++)
        {
            const int which = (first + e) % kNumInst;
            int idx = 0;
#define X(I)                                                         \
    if(idx++ == which)                                               \
        record_episode<UNPAREN_NT(I)>(r, len, cap, g, skip, out);
            FOR_EACH_INST(X)
#undef X
        }
        json extra;
        extra["len"] = kLen;
        rep.finish(extra);
        return 0;
    }
    std::fprintf(stderr, "usage: replay <vectors> | record <seed> <episodes> <len> <cap> <out> [skip]\n");
    return 3;
}
