// C16 conformance harness (driver): replays the Optional.tla vectors against
// the required / optional scalar types of one primitive type.
//
// The driver is generic and knows nothing about sbepp; it is linked with
// c16_ops.cpp, the per-primitive TU that performs the operations on the real
// types (see c16_api.hpp / c16_types.hpp).  Expected results are fields of the
// vectors (computed by TLC); this file only compares.
//
// usage: c16_optional replay <vectors.ndjson>
#include "vh.hpp"

#include "c16_api.hpp"

using namespace vh;

static report rep;
static std::string prim_name;

static std::string sig(
    const std::string& pred, const std::string& args, const std::string& flav)
{
    return pred + "." + args + "/prim=" + prim_name + "/flavour=" + flav;
}

static std::string operands(const json& v)
{
    return "  [a=" + v["a"].get<std::string>() + " ("
           + v["aval"].get<std::string>() + "), b=" + v["b"].get<std::string>()
           + " (" + v["bval"].get<std::string>() + ")]";
}

static void expect_bool(
    bool got,
    bool exp,
    const std::string& pred,
    const std::string& args,
    const std::string& expr,
    const json& v,
    int way)
{
    if(got == exp)
    {
        rep.ok(pred);
        return;
    }
    json cs = v;
    cs["way"] = way;
    cs["got"] = got;
    cs["pred"] = pred;
    rep.mismatch(
        sig(pred, args, v["flavour"].get<std::string>()),
        expr + " is " + (got ? "true" : "false") + ", specification says "
            + (exp ? "true" : "false") + operands(v),
        cs);
}

static void expect_text(
    const std::string& got,
    const std::string& exp_text,
    const std::string& pred,
    const std::string& args,
    const std::string& expr,
    const json& v,
    int way)
{
    const std::string exp = c16::canon(exp_text);
    if(got == exp)
    {
        rep.ok(pred);
        return;
    }
    json cs = v;
    cs["way"] = way;
    cs["got"] = got;
    cs["pred"] = pred;
    rep.mismatch(
        sig(pred, args, v["flavour"].get<std::string>()),
        expr + " is " + got + ", specification says " + exp + operands(v),
        cs);
}

static void run_pair(const json& v)
{
    const std::string fl = v["flavour"].get<std::string>();
    const std::string ha = v["a"].get<std::string>();
    const std::string hb = v["b"].get<std::string>();
    const std::string ac = v["acls"].get<std::string>();
    const std::string ab = ac + "-" + v["bcls"].get<std::string>();
    const bool opt = v["opt"].get<bool>();
    rep.note_distinct(fl + "/" + ha + "/" + hb);
    for(int way = 0; way < 2; way++)
    {
        c16::pair_obs o;
        c16::eval(
            fl,
            ha,
            v["aval"].get<std::string>(),
            hb,
            v["bval"].get<std::string>(),
            way,
            o);
        if(o.core)
        {
            // the object holds the value the specification says it holds
            expect_text(o.value, v["aval"].get<std::string>(), "value", ac, "a.value()", v, way);
            expect_text(o.deref, v["aval"].get<std::string>(), "value", ac, "*a", v, way);
            if(opt)
            {
                const bool hv = v["hv"].get<bool>();
                expect_bool(o.hv, hv, "hv", ac, "a.has_value()", v, way);
                expect_bool(o.boolv, hv, "bool", ac, "static_cast<bool>(a)", v, way);
                expect_bool(o.notv, !hv, "bool", ac, "!a", v, way);
                expect_text(o.vor, v["vor"].get<std::string>(), "vor", ac, "a.value_or(value of b)", v, way);
            }
            expect_bool(o.inr, v["inr"].get<bool>(), "inr", ac, "a.in_range()", v, way);
            expect_bool(o.eq, v["eq"].get<bool>(), "eq", ab, "a == b", v, way);
            expect_bool(o.ne, v["ne"].get<bool>(), "ne", ab, "a != b", v, way);
        }
        if(o.ord)
        {
            expect_bool(o.lt, v["lt"].get<bool>(), "lt", ab, "a < b", v, way);
            expect_bool(o.le, v["le"].get<bool>(), "le", ab, "a <= b", v, way);
            expect_bool(o.gt, v["gt"].get<bool>(), "gt", ab, "a > b", v, way);
            expect_bool(o.ge, v["ge"].get<bool>(), "ge", ab, "a >= b", v, way);
        }
        if(o.tw_done)
        {
            const std::string exp = v["tw"].get<std::string>();
            if(o.tw == exp)
                rep.ok("tw");
            else
            {
                json cs = v;
                cs["way"] = way;
                cs["got"] = o.tw;
                cs["pred"] = "tw";
                rep.mismatch(
                    sig("tw", ab, fl),
                    "a <=> b is " + o.tw + ", specification says " + exp
                        + operands(v),
                    cs);
            }
        }
    }
}

static void expect_attr(
    const std::string& got,
    const std::string& exp_text,
    const char* which,
    const json& tv,
    const std::string& note)
{
    const std::string exp = c16::canon(exp_text);
    if(got == exp)
    {
        rep.ok(std::string("defaults.") + which);
        return;
    }
    json cs = tv;
    cs["got"] = got;
    cs["pred"] = std::string("defaults.") + which;
    rep.mismatch(
        std::string("defaults.") + which + "/prim=" + prim_name
            + "/flavour=" + tv["flavour"].get<std::string>(),
        std::string(which) + "_value() of " + prim_name + " "
            + tv["flavour"].get<std::string>() + " is " + got
            + ", specification says " + exp + note,
        cs);
}

// tvs: the type vectors of this flavour, one per admissible reading of a
// default the specification leaves open.  Returns the variant the type under
// test follows (identified by min_value() alone).
static std::string run_type(const std::vector<json>& tvs, bool check)
{
    const std::string fl = tvs[0]["flavour"].get<std::string>();
    c16::type_obs o;
    c16::attrs(fl, o);
    std::size_t pick = 0;
    for(std::size_t i = 0; i < tvs.size(); i++)
    {
        if(o.min == c16::canon(tvs[i]["min"].get<std::string>()))
        {
            pick = i;
            break;
        }
    }
    const json& tv = tvs[pick];
    if(check)
    {
        std::string note;
        if(tvs.size() > 1)
        {
            note = " (admissible readings:";
            for(const auto& t : tvs)
                note += " " + t["min"].get<std::string>();
            note += ")";
        }
        const bool opt = tv["opt"].get<bool>();
        expect_attr(o.min, tv["min"].get<std::string>(), "min", tv, note);
        expect_attr(o.max, tv["max"].get<std::string>(), "max", tv, "");
        if(opt)
            expect_attr(o.null, tv["null"].get<std::string>(), "null", tv, "");
        if(!tv["same_as"].get<std::string>().empty())
        {
            if(o.min == o.builtin_min && o.max == o.builtin_max
               && (!opt || o.null == o.builtin_null))
                rep.ok("defaults.same_as_builtin");
            else
            {
                json cs = tv;
                cs["pred"] = "defaults.same_as_builtin";
                rep.mismatch(
                    "defaults.same_as_builtin/prim=" + prim_name
                        + "/flavour=" + fl,
                    "generated type without explicit attributes exposes min="
                        + o.min + " max=" + o.max + " null=" + o.null
                        + " but the built-in type exposes min=" + o.builtin_min
                        + " max=" + o.builtin_max + " null=" + o.builtin_null,
                    cs);
            }
        }
    }
    return tv["variant"].get<std::string>();
}

int main(int argc, char** argv)
{
    if(argc < 3 || std::string(argv[1]) != "replay")
    {
        std::fprintf(stderr, "usage: c16_optional replay <vectors.ndjson>\n");
        return 3;
    }
    prim_name = c16::prim();
    std::map<std::string, std::vector<json>> types;
    std::vector<json> pairs;
    for_each_line(
        argv[2],
        [&](const json& v)
        {
            if(v["prim"].get<std::string>() != prim_name)
                return;
            if(v["kind"].get<std::string>() == "type")
                types[v["flavour"].get<std::string>()].push_back(v);
            else
                pairs.push_back(v);
        });
    std::map<std::string, std::string> variant;
    json flavours = json::array();
    json variants = json::object();
    const bool core = (c16::part_mask() & 1) != 0;
    for(const auto& f : c16::flavours())
    {
        if(!types.count(f))
            continue;
        variant[f] = run_type(types[f], core);
        flavours.push_back(f);
        variants[f] = variant[f];
    }
    std::uint64_t replayed = 0, skipped = 0;
    for(const auto& v : pairs)
    {
        const auto it = variant.find(v["flavour"].get<std::string>());
        if(it == variant.end() || it->second != v["variant"].get<std::string>())
        {
            skipped++;
            continue;
        }
        replayed++;
        run_pair(v);
    }
    json extra;
    extra["prim"] = prim_name;
    extra["flavours"] = flavours;
    extra["variants"] = variants;
    extra["part_mask"] = c16::part_mask();
    extra["three_way"] = c16::three_way();
    extra["cplusplus"] = c16::cplusplus();
    extra["pairs_replayed"] = replayed;
    extra["pairs_other"] = skipped;
    rep.finish(extra);
    return 0;
}
