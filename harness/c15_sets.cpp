// C15 conformance harness: generated <set> classes of every width against the
// BitSet.tla vectors (replay mode) and random operation traces (record mode).
//
// usage: c15_sets replay <vectors.ndjson>
//        c15_sets record <seed> <episodes> <len> <out.ndjson>
#include "vh.hpp"

#include <c15/c15.hpp>

using namespace vh;

#define IDX8(X) X(0) X(1) X(2) X(3) X(4) X(5) X(6) X(7)
#define IDX16(X) \
    IDX8(X) X(8) X(9) X(10) X(11) X(12) X(13) X(14) X(15)
#define IDX32(X)                                                          \
    IDX16(X) X(16) X(17) X(18) X(19) X(20) X(21) X(22) X(23) X(24) X(25)  \
        X(26) X(27) X(28) X(29) X(30) X(31)
#define IDX64(X)                                                          \
    IDX32(X) X(32) X(33) X(34) X(35) X(36) X(37) X(38) X(39) X(40) X(41)  \
        X(42) X(43) X(44) X(45) X(46) X(47) X(48) X(49) X(50) X(51) X(52) \
            X(53) X(54) X(55) X(56) X(57) X(58) X(59) X(60) X(61) X(62)   \
                X(63)

struct visit_event
{
    int idx;
    bool bit;
};

template<typename S>
struct ops;

#define GETTER(i) [](const S& s) -> bool { return s.c##i(); },
#define SETTER(i) [](S& s, bool b) { s.c##i(b); },
#define TGETTER(i) \
    [](const S& s) -> bool { return sbepp::get_by_tag<Tag::c##i>(s); },
#define TSETTER(i) \
    [](S& s, bool b) { sbepp::set_by_tag<Tag::c##i>(s, b); },
#define VIS(i)                                  \
    void on_set_choice(bool b, typename Tag::c##i) \
    {                                           \
        ev.push_back({i, b});                   \
    }

#define DEFINE_OPS(NAME, IDXS, WIDTH, RAW)                                   \
    template<>                                                               \
    struct ops<c15::types::NAME>                                             \
    {                                                                        \
        using S = c15::types::NAME;                                          \
        using Tag = c15::schema::types::NAME;                                \
        using raw_t = RAW;                                                   \
        static constexpr int width = WIDTH;                                  \
        static const char* name()                                            \
        {                                                                    \
            return #NAME;                                                    \
        }                                                                    \
        using getter_t = bool (*)(const S&);                                 \
        using setter_t = void (*)(S&, bool);                                 \
        static getter_t getter(int i)                                        \
        {                                                                    \
            static const getter_t t[] = {IDXS(GETTER)};                      \
            return t[i];                                                     \
        }                                                                    \
        static setter_t setter(int i)                                        \
        {                                                                    \
            static const setter_t t[] = {IDXS(SETTER)};                      \
            return t[i];                                                     \
        }                                                                    \
        static getter_t tgetter(int i)                                       \
        {                                                                    \
            static const getter_t t[] = {IDXS(TGETTER)};                     \
            return t[i];                                                     \
        }                                                                    \
        static setter_t tsetter(int i)                                       \
        {                                                                    \
            static const setter_t t[] = {IDXS(TSETTER)};                     \
            return t[i];                                                     \
        }                                                                    \
        struct visitor                                                       \
        {                                                                    \
            std::vector<visit_event> ev;                                     \
            IDXS(VIS)                                                        \
        };                                                                   \
    };

DEFINE_OPS(s8, IDX8, 8, std::uint8_t)
DEFINE_OPS(s16, IDX16, 16, std::uint16_t)
DEFINE_OPS(s32, IDX32, 32, std::uint32_t)
DEFINE_OPS(s64, IDX64, 64, std::uint64_t)

static report rep;

// the host is little-endian; Bytes() in the spec is little-endian digits of
// the underlying *value* (not a wire image), so raw memory of T == Bytes
template<typename S>
S make(const bytes& b)
{
    return S{from_raw<typename ops<S>::raw_t>(b)};
}

template<typename S>
bytes val(const S& s)
{
    return raw_of<typename ops<S>::raw_t>(*s);
}

static std::string cls(int w, int i)
{
    // argument class used in signatures: width and index band
    std::string band = i < 8 ? "0-7" : i < 16 ? "8-15" : i < 31 ? "16-30"
                       : i < 32               ? "31"
                                              : "32-63";
    return "w=" + std::to_string(w) + "/idx=" + band;
}

template<typename S>
void replay_one(const json& v)
{
    using O = ops<S>;
    const int W = O::width;
    const bytes pre = to_bytes(v["val"]);
    rep.note_distinct(std::string(O::name()) + hex(pre));
    for(int i = 0; i < W; i++)
    {
        const bool eg = v["get"][i].get<bool>();
        json cs = {{"w", W}, {"val", v["val"]}, {"i", i}};
        // named getter
        {
            const S s = make<S>(pre);
            const bool g = O::getter(i)(s);
            if(g != eg)
                rep.mismatch(
                    "get/" + cls(W, i),
                    "getter c" + std::to_string(i) + " returned "
                        + std::to_string(g) + ", spec " + std::to_string(eg),
                    cs);
            else
                rep.ok("get");
            const bool tg = O::tgetter(i)(s);
            if(tg != eg)
                rep.mismatch(
                    "get_by_tag/" + cls(W, i), "get_by_tag differs from spec", cs);
            else
                rep.ok("get_by_tag");
            if(val(s) != pre)
                rep.mismatch("get-writes/" + cls(W, i), "getter changed value", cs);
        }
        for(int b = 0; b < 2; b++)
        {
            const bytes exp = to_bytes(v[b ? "set1" : "set0"][i]);
            cs["b"] = b;
            cs["expected"] = hex(exp);
            {
                S s = make<S>(pre);
                O::setter(i)(s, b != 0);
                if(val(s) != exp)
                {
                    cs["got"] = hex(val(s));
                    rep.mismatch(
                        "set/" + cls(W, i),
                        "setter c" + std::to_string(i) + "("
                            + std::to_string(b) + ") on " + hex(pre) + " gave "
                            + hex(val(s)) + ", spec " + hex(exp),
                        cs);
                }
                else
                    rep.ok("set");
                // equality must be equality of underlying values
                const S e = make<S>(exp);
                const S p = make<S>(pre);
                if((e == p) != (exp == pre) || (e != p) != (exp != pre))
                    rep.mismatch("eq/" + cls(W, i), "operator==/!= inconsistent", cs);
                else
                    rep.ok("eq");
            }
            {
                S s = make<S>(pre);
                O::tsetter(i)(s, b != 0);
                if(val(s) != exp)
                {
                    cs["got"] = hex(val(s));
                    rep.mismatch(
                        "set_by_tag/" + cls(W, i), "set_by_tag differs from spec", cs);
                }
                else
                    rep.ok("set_by_tag");
            }
        }
    }
    // visiting: every choice, in schema order, with its bit
    {
        const S s = make<S>(pre);
        typename O::visitor vis;
        sbepp::visit(s, vis);
        bool good = vis.ev.size() == v["visit"].size();
        for(std::size_t k = 0; good && k < vis.ev.size(); k++)
        {
            good = vis.ev[k].idx == v["visit"][k]["idx"].get<int>()
                   && vis.ev[k].bit == v["visit"][k]["bit"].get<bool>();
        }
        json cs = {{"w", W}, {"val", v["val"]}};
        if(!good)
            rep.mismatch(
                "visit/w=" + std::to_string(W), "visit events differ from spec", cs);
        else
            rep.ok("visit");
        // deprecated visit_set reports (bit, name)
        std::vector<std::pair<bool, std::string>> ev2;
        sbepp::visit_set(
            s,
            [&](bool b, const char* n)
            {
                ev2.emplace_back(b, n);
            });
        good = ev2.size() == v["visit"].size();
        for(std::size_t k = 0; good && k < ev2.size(); k++)
        {
            good = ev2[k].second
                       == "c" + std::to_string(v["visit"][k]["idx"].get<int>())
                   && ev2[k].first == v["visit"][k]["bit"].get<bool>();
        }
        if(!good)
            rep.mismatch(
                "visit_set/w=" + std::to_string(W), "visit_set differs", cs);
        else
            rep.ok("visit_set");
    }
}

// ---- record mode: random operation sequences, logged for BitSetTrace ------
template<typename S>
void record(rng& r, int len, std::ostream& out)
{
    using O = ops<S>;
    const int W = O::width;
    typename O::raw_t init = static_cast<typename O::raw_t>(r.next());
    if(r.below(4) == 0)
        init = 0;
    S s{init};
    out << json({{"e", "Reset"}, {"w", W}, {"val", from_bytes(val(s))}}).dump()
        << "\n";
    for(int k = 0; k < len; k++)
    {
        const int i = static_cast<int>(r.below(W));
        switch(r.below(5))
        {
        case 0:
        case 1:
        {
            const bool b = r.below(2);
            if(r.below(2))
                O::setter(i)(s, b);
            else
                O::tsetter(i)(s, b);
            out << json({{"e", "Set"}, {"i", i}, {"b", b}, {"val", from_bytes(val(s))}})
                       .dump()
                << "\n";
            break;
        }
        case 2:
        case 3:
        {
            const bool g = r.below(2) ? O::getter(i)(s) : O::tgetter(i)(s);
            out << json({{"e", "Get"}, {"i", i}, {"ret", g}, {"val", from_bytes(val(s))}})
                       .dump()
                << "\n";
            break;
        }
        default:
        {
            *s = static_cast<typename O::raw_t>(r.next());
            out << json({{"e", "Raw"}, {"val", from_bytes(val(s))}}).dump() << "\n";
        }
        }
    }
}

int main(int argc, char** argv)
{
    if(argc >= 3 && std::string(argv[1]) == "replay")
    {
        for_each_line(
            argv[2],
            [](const json& v)
            {
                switch(v["w"].get<int>())
                {
                case 8:
                    replay_one<c15::types::s8>(v);
                    break;
                case 16:
                    replay_one<c15::types::s16>(v);
                    break;
                case 32:
                    replay_one<c15::types::s32>(v);
                    break;
                case 64:
                    replay_one<c15::types::s64>(v);
                    break;
                }
            });
        rep.finish();
        return 0;
    }
    if(argc >= 6 && std::string(argv[1]) == "record")
    {
        rng r(std::stoull(argv[2]));
        const int episodes = std::stoi(argv[3]);
        const int len = std::stoi(argv[4]);
        const int only_w = argc >= 7 ? std::stoi(argv[6]) : 0;
        std::ofstream out(argv[5]);
        for(int e = 0; e < episodes; e++)
        {
            const int w = only_w ? only_w : (8 << r.below(4));
            switch(w)
            {
            case 8:
                record<c15::types::s8>(r, len, out);
                break;
            case 16:
                record<c15::types::s16>(r, len, out);
                break;
            case 32:
                record<c15::types::s32>(r, len, out);
                break;
            default:
                record<c15::types::s64>(r, len, out);
            }
        }
        return 0;
    }
    std::fprintf(stderr, "usage\n");
    return 3;
}
