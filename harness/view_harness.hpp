// Generic part of the view conformance harness: registry of operations on the
// real generated classes (filled by the generated dispatch file, which calls
// accessors *by name*), assertion/segfault capture, guarded memory regions.
#pragma once
#ifndef VH_BYTE
#    define VH_BYTE char
#endif

#include "vh.hpp"

#include <sbepp/sbepp.hpp>

#include <csetjmp>
#include <csignal>
#include <functional>
#include <iterator>
#include <sstream>
#include <string>
#include <cstdio>
#include <sys/mman.h>
#include <type_traits>
#include <unistd.h>

namespace vh
{
// ---------------------------------------------------------------- capture --
extern sigjmp_buf g_jmp;
extern volatile int g_asserted;
extern volatile int g_segv;
extern volatile int g_armed;
extern const char* volatile g_assert_expr;
extern volatile long g_assert_line;
// sbepp::size_bytes(message, cursor) after the last visit (function-local
// static: usable from every harness TU without a definition of its own)
inline std::size_t& cursor_size_slot()
{
    static std::size_t v = 0;
    return v;
}

template<typename F>
bool guarded(F&& f)
{
    g_asserted = 0;
    g_segv = 0;
    g_armed = 1;
    if(sigsetjmp(g_jmp, 1) == 0)
    {
        f();
        g_armed = 0;
        return true;
    }
    g_armed = 0;
    return false;
}

inline void on_segv(int, siginfo_t*, void*)
{
    if(g_armed)
    {
        g_segv = 1;
        siglongjmp(g_jmp, 2);
    }
    _exit(99);
}

inline void install_handlers()
{
    struct sigaction sa;
    std::memset(&sa, 0, sizeof(sa));
    sa.sa_sigaction = on_segv;
    sa.sa_flags = SA_SIGINFO | SA_NODEFER;
    sigaction(SIGSEGV, &sa, nullptr);
    sigaction(SIGBUS, &sa, nullptr);
}

// a buffer whose last byte is immediately followed by an inaccessible page
// (end-aligned) or whose first byte is preceded by one (start-aligned)
class region
{
public:
    explicit region(std::size_t n, bool end_aligned = true)
    {
        page = static_cast<std::size_t>(sysconf(_SC_PAGESIZE));
        pages = (n + page - 1) / page + 1;
        total = (pages + 2) * page;
        base = static_cast<char*>(mmap(
            nullptr, total, PROT_READ | PROT_WRITE, MAP_PRIVATE | MAP_ANONYMOUS, -1, 0));
        mprotect(base, page, PROT_NONE);
        mprotect(base + (pages + 1) * page, page, PROT_NONE);
        p = end_aligned ? base + (pages + 1) * page - n : base + page;
        size = n;
    }
    region(const region&) = delete;
    ~region()
    {
        munmap(base, total);
    }
    char* data() const
    {
        return p;
    }
    void readonly() const
    {
        mprotect(base + page, pages * page, PROT_READ);
    }
    void load(const bytes& b)
    {
        std::memcpy(p, b.data(), b.size() < size ? b.size() : size);
    }
    bytes dump() const
    {
        return bytes(
            reinterpret_cast<unsigned char*>(p),
            reinterpret_cast<unsigned char*>(p) + size);
    }

private:
    std::size_t page{}, pages{}, total{}, size{};
    char* base{};
    char* p{};
};

// ------------------------------------------------------ value <-> bytes ----
// entry i of a group by forward iteration (valid for flat and nested groups;
// no precondition on i, which the checked-mode harness relies on)
template<typename G, typename I>
auto nth(G g, I i) -> decltype(*g.begin())
{
    auto it = g.begin();
    for(I k = 0; k < i; ++k)
    {
        ++it;
    }
    return *it;
}
// start offsets of all entries through operator[] (flat groups only; empty
// result for nested groups, which have no random access)
template<typename G>
typename std::enable_if<sbepp::is_flat_group<G>::value, std::vector<std::ptrdiff_t>>::type
    index_addrs(G g, char* p)
{
    std::vector<std::ptrdiff_t> r;
    for(typename G::size_type i = 0; i < g.size(); i++)
        r.push_back(sbepp::addressof(g[i]) - p);
    return r;
}
template<typename G>
typename std::enable_if<!sbepp::is_flat_group<G>::value, std::vector<std::ptrdiff_t>>::type
    index_addrs(G g, char* p)
{
    std::vector<std::ptrdiff_t> r;
    for(auto e : g)
        r.push_back(sbepp::addressof(e) - p);
    return r;
}

template<typename T>
typename std::enable_if<std::is_enum<T>::value, bytes>::type enc(T v)
{
    return raw_of(static_cast<typename std::underlying_type<T>::type>(v));
}
template<typename T>
typename std::enable_if<
    sbepp::is_required_type<T>::value || sbepp::is_optional_type<T>::value,
    bytes>::type
    enc(T v)
{
    return raw_of(v.value());
}
template<typename T>
typename std::enable_if<sbepp::is_set<T>::value, bytes>::type enc(T v)
{
    return raw_of(*v);
}
template<typename T>
typename std::enable_if<sbepp::is_array_type<T>::value, bytes>::type enc(T a)
{
    bytes b;
    for(auto it = a.begin(); it != a.end(); ++it)
    {
        b.push_back(static_cast<unsigned char>(*it));
    }
    return b;
}

template<typename T>
typename std::enable_if<std::is_enum<T>::value, T>::type dec(const bytes& b)
{
    return static_cast<T>(
        from_raw<typename std::underlying_type<T>::type>(b));
}
template<typename T>
typename std::enable_if<
    sbepp::is_required_type<T>::value || sbepp::is_optional_type<T>::value,
    T>::type
    dec(const bytes& b)
{
    return T{from_raw<typename T::value_type>(b)};
}
template<typename T>
typename std::enable_if<sbepp::is_set<T>::value, T>::type dec(const bytes& b)
{
    using raw_t = typename std::remove_reference<decltype(*std::declval<T&>())>::type;
    return T{from_raw<raw_t>(b)};
}

// ------------------------------------------------------------- registry ----
using ipath = const int*;
struct leaf_ops
{
    std::function<bytes(char*, std::size_t, ipath)> get;
    std::function<void(char*, std::size_t, ipath, const bytes&)> set;
};
struct level_ops
{
    std::function<std::ptrdiff_t(char*, std::size_t, ipath)> addr;
    std::function<std::size_t(char*, std::size_t, ipath)> size_bytes;
};
struct group_ops
{
    std::function<std::ptrdiff_t(char*, std::size_t, ipath)> addr;
    std::function<std::uint64_t(char*, std::size_t, ipath)> size;
    std::function<std::size_t(char*, std::size_t, ipath)> size_bytes;
    std::function<std::uint64_t(char*, std::size_t, ipath)> header_bl;
    // returns offset of the returned header view
    std::function<std::ptrdiff_t(char*, std::size_t, ipath, std::uint64_t)> fill_header;
    std::function<void(char*, std::size_t, ipath, std::uint64_t)> resize;
    // start offsets of all entries obtained by range-for iteration
    std::function<std::vector<std::ptrdiff_t>(char*, std::size_t, ipath)> entry_addrs;
    // ... and through operator[] (flat groups)
    std::function<std::vector<std::ptrdiff_t>(char*, std::size_t, ipath)> entry_addrs_idx;
};
struct data_ops
{
    std::function<std::ptrdiff_t(char*, std::size_t, ipath)> addr;
    std::function<bytes(char*, std::size_t, ipath)> get;
    std::function<std::size_t(char*, std::size_t, ipath)> size_bytes;
    std::function<void(char*, std::size_t, ipath, const bytes&)> assign;
};
struct message_ops
{
    std::function<std::size_t(char*, std::size_t)> size_bytes;
    std::function<std::ptrdiff_t(char*, std::size_t)> fill_header;
    std::function<std::uint64_t(char*, std::size_t)> header_bl;
};

struct cursor_ret
{
    int what = 0; // 0 none, 1 value, 2 view, 3 group, 4 data
    bytes value;
    std::ptrdiff_t addr = -1;
    std::uint64_t n = 0;
};
constexpr std::ptrdiff_t cur_unset = -1000000;
// cursor-based access to a direct member of a level through wrapper w:
// 0 plain, 1 init, 2 dont_move, 3 init_dont_move, 4 skip
struct member_ops
{
    std::function<cursor_ret(char*, std::size_t, ipath, int, std::ptrdiff_t&)> cget;
    std::function<void(char*, std::size_t, ipath, int, std::ptrdiff_t&, const bytes&)> cset;
};

template<typename T>
typename std::enable_if<
    std::is_enum<T>::value || sbepp::is_required_type<T>::value
        || sbepp::is_optional_type<T>::value || sbepp::is_set<T>::value,
    cursor_ret>::type
    cret(char*, T v)
{
    cursor_ret r;
    r.what = 1;
    r.value = enc(v);
    return r;
}
template<typename T>
typename std::enable_if<
    sbepp::is_composite<T>::value || sbepp::is_array_type<T>::value,
    cursor_ret>::type
    cret(char* p, T v)
{
    cursor_ret r;
    r.what = 2;
    r.addr = sbepp::addressof(v) - p;
    return r;
}
template<typename T>
typename std::enable_if<sbepp::is_group<T>::value, cursor_ret>::type
    cret(char* p, T v)
{
    cursor_ret r;
    r.what = 3;
    r.addr = sbepp::addressof(v) - p;
    r.n = static_cast<std::uint64_t>(v.size());
    return r;
}
template<typename T>
typename std::enable_if<sbepp::is_data<T>::value, cursor_ret>::type
    cret(char* p, T v)
{
    cursor_ret r;
    r.what = 4;
    r.addr = sbepp::addressof(v) - p;
    for(auto it = v.begin(); it != v.end(); ++it)
        r.value.push_back(static_cast<unsigned char>(*it));
    return r;
}

// ---- recursive visitor (C19): logs every callback with the cursor position
struct vevent
{
    std::string ev, key;
    bytes val;
    std::uint64_t n = 0;
    std::ptrdiff_t cur = 0;
};
// key of a level member's tag: specialised by the generated dispatch, one per
// tag type (so the tag identity is observed, not a name reported by a trait)
template<typename Tag>
struct tagkey_t;

template<typename Tag, typename = void>
struct elem_name
{
    static std::string get()
    {
        return "?";
    }
};
template<typename Tag>
struct elem_name<Tag, typename std::enable_if<sbepp::is_type_tag<Tag>::value>::type>
{
    static std::string get()
    {
        return sbepp::type_traits<Tag>::name();
    }
};
template<typename Tag>
struct elem_name<Tag, typename std::enable_if<sbepp::is_enum_tag<Tag>::value>::type>
{
    static std::string get()
    {
        return sbepp::enum_traits<Tag>::name();
    }
};
template<typename Tag>
struct elem_name<Tag, typename std::enable_if<sbepp::is_set_tag<Tag>::value>::type>
{
    static std::string get()
    {
        return sbepp::set_traits<Tag>::name();
    }
};
template<typename Tag>
struct elem_name<Tag, typename std::enable_if<sbepp::is_composite_tag<Tag>::value>::type>
{
    static std::string get()
    {
        return sbepp::composite_traits<Tag>::name();
    }
};

template<typename T>
typename std::enable_if<sbepp::is_array_type<T>::value, bytes>::type venc(T v)
{
    return enc(v);
}
template<typename T>
typename std::enable_if<
    !sbepp::is_array_type<T>::value && !sbepp::is_composite<T>::value,
    bytes>::type
    venc(T v)
{
    return enc(v);
}

template<typename Byte>
struct rec_visitor
{
    char* base;
    sbepp::cursor<Byte>* top;
    int stop;
    std::vector<vevent>* log;
    int count = 0;
    bool stopped = false;
    int chunk = 0; // 0: visit_children(group); k > 0: cursor_subrange chunks of k
    rec_visitor(char* b, sbepp::cursor<Byte>* t, int s, std::vector<vevent>* l, int ch = 0)
        : base(b), top(t), stop(s), log(l), chunk(ch)
    {
    }
    std::vector<std::string> comp;         // composite key prefix stack
    std::vector<std::uint64_t> entry_idx;  // entry counters of open groups
    std::vector<std::string> group_key;

    bool emit(const char* ev, const std::string& key, bytes val, std::uint64_t n)
    {
        vevent e;
        e.ev = ev;
        e.key = key;
        e.val = std::move(val);
        e.n = n;
        e.cur = top->pointer() - base;
        log->push_back(std::move(e));
        if(++count == stop)
            stopped = true;
        return stopped;
    }

    template<typename T, typename Cursor, typename Tag>
    bool on_group(T g, Cursor& c, Tag)
    {
        const std::string key = tagkey_t<Tag>::get();
        if(emit("group", key, {}, static_cast<std::uint64_t>(g.size())))
            return true;
        entry_idx.push_back(0);
        group_key.push_back(key);
        if(chunk == 0)
            sbepp::visit_children(g, c, *this);
        else
        {
            // the same entries through consecutive cursor sub-ranges
            using size_type = typename T::size_type;
            const size_type n = g.size();
            for(size_type pos = 0; pos < n && !stopped; pos = static_cast<size_type>(pos + chunk))
            {
                // chunk 1: always the (pos, count) form; chunk 2: the last chunk
                // through the (pos) form
                const bool last_chunk = static_cast<std::uint64_t>(pos) + chunk >= n;
                if(last_chunk && chunk != 1)
                {
                    for(auto e : g.cursor_subrange(c, pos))
                        if(on_entry(e, c))
                            break;
                }
                else
                {
                    for(auto e : g.cursor_subrange(
                            c, pos, last_chunk ? static_cast<size_type>(n - pos) : static_cast<size_type>(chunk)))
                        if(on_entry(e, c))
                            break;
                }
            }
        }
        entry_idx.pop_back();
        group_key.pop_back();
        return stopped;
    }
    template<typename T, typename Cursor>
    bool on_entry(T e, Cursor& c)
    {
        if(emit("entry", group_key.back(), {}, ++entry_idx.back()))
            return true;
        sbepp::visit_children(e, c, *this);
        return stopped;
    }
    template<typename T, typename Tag>
    bool on_data(T d, Tag)
    {
        bytes b;
        for(auto it = d.begin(); it != d.end(); ++it)
            b.push_back(static_cast<unsigned char>(*it));
        return emit("data", tagkey_t<Tag>::get(), std::move(b), 0);
    }
    template<typename T, typename Tag>
    typename std::enable_if<sbepp::is_composite<T>::value, bool>::type
        on_field(T v, Tag)
    {
        const std::string key = tagkey_t<Tag>::get();
        if(emit("field", key, {}, 0))
            return true;
        comp.push_back(key);
        sbepp::visit_children(v, *this);
        comp.pop_back();
        return stopped;
    }
    template<typename T, typename Tag>
    typename std::enable_if<!sbepp::is_composite<T>::value, bool>::type
        on_field(T v, Tag)
    {
        return emit("field", tagkey_t<Tag>::get(), venc(v), 0);
    }
    template<typename T, typename Tag>
    bool on_type(T v, Tag)
    {
        return emit("type", comp.back() + "/" + elem_name<Tag>::get(), venc(v), 0);
    }
    template<typename T, typename Tag>
    bool on_enum(T v, Tag)
    {
        return emit("enum", comp.back() + "/" + elem_name<Tag>::get(), venc(v), 0);
    }
    template<typename T, typename Tag>
    bool on_set(T v, Tag)
    {
        return emit("set", comp.back() + "/" + elem_name<Tag>::get(), venc(v), 0);
    }
    template<typename T, typename Tag>
    bool on_composite(T v, Tag)
    {
        comp.push_back(comp.back() + "/" + elem_name<Tag>::get());
        sbepp::visit_children(v, *this);
        comp.pop_back();
        return stopped;
    }
};

// get_by_tag / set_by_tag on a direct member of a level (C19: must behave
// exactly like the named accessor)
struct tagged_ops
{
    std::function<cursor_ret(char*, std::size_t, ipath)> tget;
    std::function<cursor_ret(char*, std::size_t, ipath)> named;
    std::function<void(char*, std::size_t, ipath, const bytes&)> tset; // scalars
    // get_by_tag / set_by_tag with a cursor (wrapper id as in member_ops)
    std::function<cursor_ret(char*, std::size_t, ipath, int, std::ptrdiff_t&)> tcget;
    std::function<void(char*, std::size_t, ipath, int, std::ptrdiff_t&, const bytes&)> tcset;
};
// structure of a level, names only (for the record-mode driver)
struct level_struct
{
    std::vector<std::string> leaves, groups, data;
};
// visit(enum value): reported tag name ("unknown" for unknown_enum_value_tag)
// and the deprecated enum_to_string
struct enum_ops
{
    std::function<std::string(std::uint64_t)> visit_tag;
    std::function<std::string(std::uint64_t)> to_string; // "(null)" for nullptr
};
struct visit_ops
{
    // returns the cursor offset (relative to the message start) afterwards
    std::function<std::ptrdiff_t(char*, std::size_t, int, std::vector<vevent>&, int)> run;
};

struct registry
{
    std::map<std::string, member_ops> members;
    std::map<std::string, visit_ops> visits;
    std::map<std::string, tagged_ops> tagged;
    std::map<std::string, enum_ops> enums;
    std::map<std::string, level_struct> structs;
    std::map<std::string, leaf_ops> leaves;
    std::map<std::string, std::function<bytes(char*, std::size_t, ipath)>> setbits;
    std::map<std::string, level_ops> levels;
    std::map<std::string, group_ops> groups;
    std::map<std::string, data_ops> data;
    std::map<std::string, message_ops> messages;
    static registry& get()
    {
        static registry r;
        return r;
    }
};

struct reg_leaf
{
    reg_leaf(const char* k, leaf_ops o)
    {
        registry::get().leaves[k] = std::move(o);
    }
};
struct reg_setbits
{
    reg_setbits(const char* k, std::function<bytes(char*, std::size_t, ipath)> f)
    {
        registry::get().setbits[k] = std::move(f);
    }
};
struct reg_level
{
    reg_level(const char* k, level_ops o)
    {
        registry::get().levels[k] = std::move(o);
    }
};
struct reg_group
{
    reg_group(const char* k, group_ops o)
    {
        registry::get().groups[k] = std::move(o);
    }
};
struct reg_data
{
    reg_data(const char* k, data_ops o)
    {
        registry::get().data[k] = std::move(o);
    }
};
struct reg_member
{
    reg_member(const char* k, member_ops o)
    {
        registry::get().members[k] = std::move(o);
    }
};
struct reg_tagged
{
    reg_tagged(const char* k, tagged_ops o)
    {
        registry::get().tagged[k] = std::move(o);
    }
};
struct reg_struct
{
    reg_struct(const char* k, level_struct o)
    {
        registry::get().structs[k] = std::move(o);
    }
};
struct reg_enum
{
    reg_enum(const char* k, enum_ops o)
    {
        registry::get().enums[k] = std::move(o);
    }
};
struct reg_visit
{
    reg_visit(const char* k, visit_ops o)
    {
        registry::get().visits[k] = std::move(o);
    }
};
struct reg_message
{
    reg_message(const char* k, message_ops o)
    {
        registry::get().messages[k] = std::move(o);
    }
};

template<typename A>
void set_array(A a, const bytes& b)
{
    std::size_t i = 0;
    for(auto it = a.begin(); it != a.end() && i < b.size(); ++it, ++i)
    {
        *it = static_cast<typename A::value_type>(b[i]);
    }
}

// the API form through which a group header gets its values (ViewEmit.tla GroupForms)
inline std::string& group_form()
{
    static std::string f = "fill";
    return f;
}

template<typename G>
auto fill_group(G g, std::uint64_t c)
    -> decltype(::sbepp::fill_group_header(g, static_cast<typename G::size_type>(c)))
{
    using S = typename G::size_type;
    const std::string& f = group_form();
    if(f == "fill_zero_then_resize")
    {
        auto h = ::sbepp::fill_group_header(g, static_cast<S>(0));
        g.resize(static_cast<S>(c));
        return h;
    }
    if(f == "fill_other_then_resize")
    {
        auto h = ::sbepp::fill_group_header(g, static_cast<S>(c + 1));
        g.resize(static_cast<S>(c));
        return h;
    }
    if(f == "fill_other_then_clear")
    {
        auto h = ::sbepp::fill_group_header(g, static_cast<S>(3));
        g.clear();
        return h;
    }
    return ::sbepp::fill_group_header(g, static_cast<S>(c));
}

// the API form through which assign_data gives the value to the <data> member
// (names are those of ViewEmit.tla DataForms; set by the replay loop)
inline std::string& data_form()
{
    static std::string f = "assign_range";
    return f;
}

template<typename D>
void assign_data(D d, const bytes& b)
{
    using T = typename D::value_type;
    using S = typename D::size_type;
    std::vector<T> v;
    for(auto x : b)
    {
        v.push_back(static_cast<T>(x));
    }
    const std::string& f = data_form();
    const S n = static_cast<S>(v.size());
    if(f == "assign_range")
        d.assign_range(v);
    else if(f == "assign_it")
        d.assign(v.begin(), v.end());
    else if(f == "assign_input_it")
    {
        // a genuine single-pass input iterator
        std::istringstream is(std::string(b.begin(), b.end()));
        d.assign(std::istreambuf_iterator<char>(is), std::istreambuf_iterator<char>());
    }
    else if(f == "resize_then_set" || f == "resize_v_then_set" || f == "assign_n_then_set")
    {
        if(f == "resize_then_set")
            d.resize(n);
        else if(f == "resize_v_then_set")
            d.resize(n, static_cast<T>(0x5a));
        else
            d.assign(n, static_cast<T>(0x33));
        for(S i = 0; i < n; i++)
            d[i] = v[static_cast<std::size_t>(i)];
    }
    else if(f == "clear_push_back")
    {
        d.clear();
        for(auto x : v)
            d.push_back(x);
    }
    else if(f == "clear_insert_end")
    {
        d.clear();
        for(auto x : v)
            d.insert(d.end(), x);
    }
    else if(f == "clear_insert_range")
    {
        d.resize(0);
        d.insert(d.begin(), v.begin(), v.end());
    }
    else if(f == "clear")
        d.clear();
    else if(f == "resize_0")
        d.resize(0);
    else if(f == "resize_0_default_init")
        d.resize(0, ::sbepp::default_init);
    else if(f == "assign_empty_ilist")
        d.assign(std::initializer_list<T>{});
    else if(f == "assign_ilist")
    {
        if(v.size() == 1)
            d.assign({v[0]});
        else if(v.size() == 2)
            d.assign({v[0], v[1]});
        else
            d.assign({v[0], v[1], v[2]});
    }
    else if(f == "assign_n")
        d.assign(n, v[0]);
    else if(f == "assign_string")
    {
        std::string s(v.begin(), v.end());
        d.assign_string(s.c_str());
    }
    else if(f == "assign_tail_then_insert_front")
    {
        d.assign(v.begin() + 1, v.end());
        d.insert(d.begin(), v[0]);
    }
    else
    {
        std::fprintf(stderr, "unknown data form %s\n", f.c_str());
        std::exit(3);
    }
}
} // namespace vh

#define VH_CAT2(a, b) a##b
#define VH_CAT(a, b) VH_CAT2(a, b)
#define VH_P(...) __VA_ARGS__

#define VH_KIND_scalar(par, ACC, b) par.ACC(::vh::dec<decltype(par.ACC())>(b))
#define VH_KIND_enum(par, ACC, b) par.ACC(::vh::dec<decltype(par.ACC())>(b))
#define VH_KIND_set(par, ACC, b) par.ACC(::vh::dec<decltype(par.ACC())>(b))
#define VH_KIND_array(par, ACC, b) ::vh::set_array(par.ACC(), b)

#define VH_REG_MESSAGE(KEY, M)                                                \
    static ::vh::reg_message VH_CAT(vh_r_, __COUNTER__)(                      \
        KEY,                                                                  \
        ::vh::message_ops{                                                    \
            [](char* p, std::size_t n) -> std::size_t                         \
            { return ::sbepp::size_bytes(M{p, n}); },                         \
            [](char* p, std::size_t n) -> std::ptrdiff_t                      \
            {                                                                 \
                auto h = ::sbepp::fill_message_header(M{p, n});               \
                return ::sbepp::addressof(h) - p;                             \
            },                                                                \
            [](char* p, std::size_t n) -> std::uint64_t                       \
            {                                                                 \
                return static_cast<std::uint64_t>(                            \
                    ::sbepp::get_header(M{p, n}).blockLength().value());      \
            }})

#define VH_TAGKEY(TAG, KEY)            \
    namespace vh                       \
    {                                  \
    template<>                         \
    struct tagkey_t<TAG>               \
    {                                  \
        static const char* get()       \
        {                              \
            return KEY;                \
        }                              \
    };                                 \
    }

#define VH_REG_VISIT(KEY, M)                                                  \
    static ::vh::reg_visit VH_CAT(vh_r_, __COUNTER__)(                        \
        KEY,                                                                  \
        ::vh::visit_ops{[](char* p,                                           \
                           std::size_t n,                                     \
                           int stop,                                          \
                           std::vector<::vh::vevent>& log,                    \
                           int chunk) -> std::ptrdiff_t                       \
                        {                                                     \
                            M m{p, n};                                        \
                            auto c = ::sbepp::init_cursor(m);                 \
                            ::vh::rec_visitor<VH_BYTE> v{                     \
                                p, &c, stop, &log, chunk};                    \
                            ::sbepp::visit_children(m, c, v);                 \
                            ::vh::cursor_size_slot() = ::sbepp::size_bytes(m, c);\
                            return c.pointer() - p;                           \
                        }})

// enum visiting: one overload per value tag (tag identity observed directly)
#define VH_ENUM_BEGIN(ID, E)                                                  \
    struct vh_enum_vis_##ID                                                   \
    {                                                                         \
        std::string got = "(no callback)";                                    \
        int calls = 0;                                                        \
        void on_enum_value(E, ::sbepp::unknown_enum_value_tag)                \
        {                                                                     \
            got = "unknown";                                                  \
            calls++;                                                          \
        }
#define VH_ENUM_VALUE(E, TAG, NAME)                                           \
    void on_enum_value(E, TAG)                                                \
    {                                                                         \
        got = NAME;                                                           \
        calls++;                                                              \
    }
#define VH_ENUM_END(ID, KEY, E)                                               \
    }                                                                         \
    ;                                                                         \
    static ::vh::reg_enum VH_CAT(vh_r_, __COUNTER__)(                         \
        KEY,                                                                  \
        ::vh::enum_ops{                                                       \
            [](std::uint64_t v) -> std::string                                \
            {                                                                 \
                vh_enum_vis_##ID vis;                                         \
                ::sbepp::visit(static_cast<E>(v), vis);                       \
                return vis.calls == 1 ? vis.got                               \
                                      : "(" + std::to_string(vis.calls)       \
                                            + " callbacks)";                  \
            },                                                                \
            [](std::uint64_t v) -> std::string                                \
            {                                                                 \
                const char* n = ::sbepp::enum_to_string(static_cast<E>(v));   \
                return n ? n : "(null)";                                      \
            }});

#define VH_REG_STRUCT(KEY, ...) \
    static ::vh::reg_struct VH_CAT(vh_r_, __COUNTER__)(KEY, ::vh::level_struct __VA_ARGS__)

#define VH_REG_LEVEL(KEY, M, LV)                                              \
    static ::vh::reg_level VH_CAT(vh_r_, __COUNTER__)(                        \
        KEY,                                                                  \
        ::vh::level_ops{                                                      \
            [](char* p, std::size_t n, ::vh::ipath ip) -> std::ptrdiff_t      \
            { return ::sbepp::addressof(LV(M{p, n}, ip)) - p; },              \
            [](char* p, std::size_t n, ::vh::ipath ip) -> std::size_t         \
            { return ::sbepp::size_bytes(LV(M{p, n}, ip)); }})

#define VH_REG_LEAF(KEY, M, LV, PARENT, ACC, KIND)                            \
    static ::vh::reg_leaf VH_CAT(vh_r_, __COUNTER__)(                         \
        KEY,                                                                  \
        ::vh::leaf_ops{                                                       \
            [](char* p, std::size_t n, ::vh::ipath ip) -> ::vh::bytes         \
            {                                                                 \
                auto par = LV(M{p, n}, ip) PARENT;                            \
                return ::vh::enc(par.ACC());                                  \
            },                                                                \
            [](char* p, std::size_t n, ::vh::ipath ip, const ::vh::bytes& b)  \
            {                                                                 \
                auto par = LV(M{p, n}, ip) PARENT;                            \
                KIND(par, ACC, b);                                            \
            }})

// the declared choices of a set read one by one through their named getters:
// returns the value recomposed from them followed by the mask of declared bits
#define VH_CH(NAME, IDX)                                                       \
    mask[(IDX) / 8] |= static_cast<std::uint8_t>(1u << ((IDX) % 8));          \
    if(s.NAME())                                                              \
        out[(IDX) / 8] |= static_cast<std::uint8_t>(1u << ((IDX) % 8));
#define VH_REG_SETBITS(KEY, M, LV, PARENT, ACC, CHOICES)                      \
    static ::vh::reg_setbits VH_CAT(vh_r_, __COUNTER__)(                      \
        KEY,                                                                  \
        [](char* p, std::size_t n, ::vh::ipath ip) -> ::vh::bytes             \
        {                                                                     \
            auto par = LV(M{p, n}, ip) PARENT;                                \
            const auto s = par.ACC();                                         \
            ::vh::bytes out(sizeof(*s), 0), mask(sizeof(*s), 0);              \
            CHOICES                                                           \
            out.insert(out.end(), mask.begin(), mask.end());                  \
            return out;                                                       \
        })

#define VH_REG_FIELD(KEY, M, LV, NAME, ISCONST)

#define VH_CALL_NAMED(NAME, TAG, ...) lv.NAME(__VA_ARGS__)
#define VH_CALL_GTAG(NAME, TAG, ...) ::sbepp::get_by_tag<TAG>(lv, __VA_ARGS__)
#define VH_CALL_STAG(NAME, TAG, ...) ::sbepp::set_by_tag<TAG>(lv, __VA_ARGS__)
#define VH_CGET_BODY(M, LV, NAME) VH_CGET_BODY2(M, LV, NAME, void, VH_CALL_NAMED)
#define VH_CSET_BODY(M, LV, NAME) VH_CSET_BODY2(M, LV, NAME, void, VH_CALL_NAMED)
#define VH_CGET_BODY2(M, LV, NAME, TAG, CALL)                                 \
    [](char* p, std::size_t n, ::vh::ipath ip, int w, std::ptrdiff_t& cur)    \
        -> ::vh::cursor_ret                                                   \
    {                                                                         \
        auto lv = LV(M{p, n}, ip);                                            \
        ::sbepp::cursor<VH_BYTE> c;                                           \
        c.pointer() = (cur == ::vh::cur_unset) ? nullptr : p + cur;           \
        ::vh::cursor_ret r;                                                   \
        switch(w)                                                             \
        {                                                                     \
        case 0:                                                               \
            r = ::vh::cret(p, CALL(NAME, TAG, c));                            \
            break;                                                            \
        case 1:                                                               \
            r = ::vh::cret(p, CALL(NAME, TAG, ::sbepp::cursor_ops::init(c))); \
            break;                                                            \
        case 2:                                                               \
            r = ::vh::cret(                                                   \
                p, CALL(NAME, TAG, ::sbepp::cursor_ops::dont_move(c)));       \
            break;                                                            \
        case 3:                                                               \
            r = ::vh::cret(                                                   \
                p, CALL(NAME, TAG, ::sbepp::cursor_ops::init_dont_move(c)));  \
            break;                                                            \
        default:                                                              \
            CALL(NAME, TAG, ::sbepp::cursor_ops::skip(c));                    \
        }                                                                     \
        cur = c.pointer() ? c.pointer() - p : ::vh::cur_unset;                \
        return r;                                                             \
    }

#define VH_CSET_BODY2(M, LV, NAME, TAG, CALL)                                 \
    [](char* p,                                                               \
       std::size_t n,                                                         \
       ::vh::ipath ip,                                                        \
       int w,                                                                 \
       std::ptrdiff_t& cur,                                                   \
       const ::vh::bytes& b)                                                  \
    {                                                                         \
        auto lv = LV(M{p, n}, ip);                                            \
        ::sbepp::cursor<VH_BYTE> c;                                           \
        c.pointer() = (cur == ::vh::cur_unset) ? nullptr : p + cur;           \
        auto val = ::vh::dec<decltype(lv.NAME())>(b);                         \
        switch(w)                                                             \
        {                                                                     \
        case 0:                                                               \
            CALL(NAME, TAG, val, c);                                          \
            break;                                                            \
        case 1:                                                               \
            CALL(NAME, TAG, val, ::sbepp::cursor_ops::init(c));               \
            break;                                                            \
        case 2:                                                               \
            CALL(NAME, TAG, val, ::sbepp::cursor_ops::dont_move(c));          \
            break;                                                            \
        default:                                                              \
            CALL(NAME, TAG, val, ::sbepp::cursor_ops::init_dont_move(c));     \
        }                                                                     \
        cur = c.pointer() ? c.pointer() - p : ::vh::cur_unset;                \
    }

#define VH_TGET_BODY(M, LV, NAME, TAG)                                        \
    [](char* p, std::size_t n, ::vh::ipath ip) -> ::vh::cursor_ret            \
    { return ::vh::cret(p, ::sbepp::get_by_tag<TAG>(LV(M{p, n}, ip))); },     \
        [](char* p, std::size_t n, ::vh::ipath ip) -> ::vh::cursor_ret        \
    { return ::vh::cret(p, LV(M{p, n}, ip).NAME()); }
#define VH_REG_TAGGED_scalar(KEY, M, LV, NAME, TAG)                           \
    static ::vh::reg_tagged VH_CAT(vh_r_, __COUNTER__)(                       \
        KEY,                                                                  \
        ::vh::tagged_ops{                                                     \
            VH_TGET_BODY(M, LV, NAME, TAG),                                   \
            [](char* p, std::size_t n, ::vh::ipath ip, const ::vh::bytes& b)  \
            {                                                                 \
                auto lv = LV(M{p, n}, ip);                                    \
                ::sbepp::set_by_tag<TAG>(                                     \
                    lv, ::vh::dec<decltype(lv.NAME())>(b));                   \
            },                                                                \
            VH_CGET_BODY2(M, LV, NAME, TAG, VH_CALL_GTAG),                    \
            VH_CSET_BODY2(M, LV, NAME, TAG, VH_CALL_STAG)})
#define VH_REG_TAGGED_view(KEY, M, LV, NAME, TAG)                             \
    static ::vh::reg_tagged VH_CAT(vh_r_, __COUNTER__)(                       \
        KEY,                                                                  \
        ::vh::tagged_ops{VH_TGET_BODY(M, LV, NAME, TAG),                      \
                         nullptr,                                             \
                         VH_CGET_BODY2(M, LV, NAME, TAG, VH_CALL_GTAG),       \
                         nullptr})

#define VH_REG_CMEMBER_scalar(KEY, M, LV, NAME)                               \
    static ::vh::reg_member VH_CAT(vh_r_, __COUNTER__)(                       \
        KEY,                                                                  \
        ::vh::member_ops{VH_CGET_BODY(M, LV, NAME), VH_CSET_BODY(M, LV, NAME)})
#define VH_REG_CMEMBER_view(KEY, M, LV, NAME)                                 \
    static ::vh::reg_member VH_CAT(vh_r_, __COUNTER__)(                       \
        KEY, ::vh::member_ops{VH_CGET_BODY(M, LV, NAME), nullptr})

#define VH_REG_GROUP(KEY, M, LV, NAME)                                        \
    static ::vh::reg_group VH_CAT(vh_r_, __COUNTER__)(                        \
        KEY,                                                                  \
        ::vh::group_ops{                                                      \
            [](char* p, std::size_t n, ::vh::ipath ip) -> std::ptrdiff_t      \
            { return ::sbepp::addressof(LV(M{p, n}, ip).NAME()) - p; },       \
            [](char* p, std::size_t n, ::vh::ipath ip) -> std::uint64_t       \
            {                                                                 \
                return static_cast<std::uint64_t>(                            \
                    LV(M{p, n}, ip).NAME().size());                           \
            },                                                                \
            [](char* p, std::size_t n, ::vh::ipath ip) -> std::size_t         \
            { return ::sbepp::size_bytes(LV(M{p, n}, ip).NAME()); },          \
            [](char* p, std::size_t n, ::vh::ipath ip) -> std::uint64_t       \
            {                                                                 \
                return static_cast<std::uint64_t>(                            \
                    ::sbepp::get_header(LV(M{p, n}, ip).NAME())               \
                        .blockLength()                                        \
                        .value());                                            \
            },                                                                \
            [](char* p, std::size_t n, ::vh::ipath ip, std::uint64_t c)       \
                -> std::ptrdiff_t                                             \
            {                                                                 \
                auto g = LV(M{p, n}, ip).NAME();                              \
                auto h = ::vh::fill_group(g, c);                              \
                return ::sbepp::addressof(h) - p;                             \
            },                                                                \
            [](char* p, std::size_t n, ::vh::ipath ip, std::uint64_t c)       \
            {                                                                 \
                auto g = LV(M{p, n}, ip).NAME();                              \
                g.resize(static_cast<typename decltype(g)::size_type>(c));    \
            },                                                                \
            [](char* p, std::size_t n, ::vh::ipath ip)                        \
                -> std::vector<std::ptrdiff_t>                                \
            {                                                                 \
                std::vector<std::ptrdiff_t> r;                                \
                auto g = LV(M{p, n}, ip).NAME();                              \
                for(auto e : g)                                               \
                    r.push_back(::sbepp::addressof(e) - p);                   \
                return r;                                                     \
            },                                                                \
            [](char* p, std::size_t n, ::vh::ipath ip)                        \
                -> std::vector<std::ptrdiff_t>                                \
            { return ::vh::index_addrs(LV(M{p, n}, ip).NAME(), p); }})

#define VH_REG_DATA(KEY, M, LV, NAME)                                         \
    static ::vh::reg_data VH_CAT(vh_r_, __COUNTER__)(                         \
        KEY,                                                                  \
        ::vh::data_ops{                                                       \
            [](char* p, std::size_t n, ::vh::ipath ip) -> std::ptrdiff_t      \
            { return ::sbepp::addressof(LV(M{p, n}, ip).NAME()) - p; },       \
            [](char* p, std::size_t n, ::vh::ipath ip) -> ::vh::bytes         \
            {                                                                 \
                auto d = LV(M{p, n}, ip).NAME();                              \
                ::vh::bytes b;                                                \
                for(auto it = d.begin(); it != d.end(); ++it)                 \
                    b.push_back(static_cast<unsigned char>(*it));             \
                return b;                                                     \
            },                                                                \
            [](char* p, std::size_t n, ::vh::ipath ip) -> std::size_t         \
            { return ::sbepp::size_bytes(LV(M{p, n}, ip).NAME()); },          \
            [](char* p, std::size_t n, ::vh::ipath ip, const ::vh::bytes& b)  \
            { ::vh::assign_data(LV(M{p, n}, ip).NAME(), b); }})
