// C16: the types under test for one primitive type (-DC16_PRIM=<name>), shared
// by the operations TU of the replay harness (c16_ops.cpp) and the generated constant-
// evaluation TUs.  -DC16_FLAVOUR_MASK / -DC16_PART_MASK select what is compiled
// in, so that a library construct that does not compile for one
// (flavour, part) cannot hide the others.
//   flavour bits: 0 builtin_req 1 builtin_opt 2 def_req 3 def_opt 4 expA_req
//                 5 expA_opt 6 expB_req 7 expB_opt 8 expC_opt 9 expD_req
//   part bits:    1 core (ctor, value, has_value, bool, value_or, in_range, ==,
//                   !=, static min/max/null)  2 ord (<, <=, >, >=)
//                 4 tw (operator<=> called directly, where it exists)
#pragma once
#include <sbepp/sbepp.hpp>

#ifndef C16_PRIM
#    error "C16_PRIM must be defined"
#endif
#ifndef C16_FLAVOUR_MASK
#    define C16_FLAVOUR_MASK 0x3ff
#endif
#ifndef C16_PART_MASK
#    define C16_PART_MASK 7
#endif
#define C16_HAS(i) (((C16_FLAVOUR_MASK) >> (i)) & 1)
#define C16_CORE ((C16_PART_MASK) & 1)
#define C16_ORD ((C16_PART_MASK) & 2)
#define C16_TW (((C16_PART_MASK) & 4) && SBEPP_HAS_THREE_WAY_COMPARISON)

#define C16_STR2(x) #x
#define C16_STR(x) C16_STR2(x)
#define C16_CAT2(a, b) a##b
#define C16_CAT(a, b) C16_CAT2(a, b)
#define C16_NAME2(p, f) p##_##f
#define C16_NAME(p, f) C16_NAME2(p, f)
#define C16_HDR2(n) C16_STR2(c16/types/n.hpp)
#define C16_HDR1(n) C16_HDR2(n)
#define C16_HDR(f) C16_HDR1(C16_NAME(C16_PRIM, f))

// flavour index, name, is-optional (the list of Optional.tla:Flavours)
#if C16_HAS(0)
using T_builtin_req = sbepp::C16_CAT(C16_PRIM, _t);
#endif
#if C16_HAS(1)
using T_builtin_opt = sbepp::C16_CAT(C16_PRIM, _opt_t);
#endif
#if C16_HAS(2)
#    include C16_HDR(def_req)
using T_def_req = c16::types::C16_NAME(C16_PRIM, def_req);
#endif
#if C16_HAS(3)
#    include C16_HDR(def_opt)
using T_def_opt = c16::types::C16_NAME(C16_PRIM, def_opt);
#endif
#if C16_HAS(4)
#    include C16_HDR(expA_req)
using T_expA_req = c16::types::C16_NAME(C16_PRIM, expA_req);
#endif
#if C16_HAS(5)
#    include C16_HDR(expA_opt)
using T_expA_opt = c16::types::C16_NAME(C16_PRIM, expA_opt);
#endif
#if C16_HAS(6)
#    include C16_HDR(expB_req)
using T_expB_req = c16::types::C16_NAME(C16_PRIM, expB_req);
#endif
#if C16_HAS(7)
#    include C16_HDR(expB_opt)
using T_expB_opt = c16::types::C16_NAME(C16_PRIM, expB_opt);
#endif
#if C16_HAS(8)
#    include C16_HDR(expC_opt)
using T_expC_opt = c16::types::C16_NAME(C16_PRIM, expC_opt);
#endif
#if C16_HAS(9)
#    include C16_HDR(expD_req)
using T_expD_req = c16::types::C16_NAME(C16_PRIM, expD_req);
#endif

