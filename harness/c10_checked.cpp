// C10 - checked builds never touch memory outside the view silently.
//
// Replays Checked.tla vectors against the real sbeppc-generated accessors built
// with SBEPP_ENABLE_ASSERTS_WITH_HANDLER.  A vector is (image, n, operation)
// with the outcome TLC computed from the spec's Touched / Req / Pre:
//   0 must_assert, 1 must_ok, 2 either; +3 when some view of the call chain
//   (a receiver view, the cursor) starts beyond p+n (a label for the signature)
// Each vector is executed twice with the same bytes:
//   end-aligned    byte p+n is the first byte of an inaccessible area: any
//                  access at or beyond the end of the view faults
//   start-aligned  byte p-1 is inaccessible (underruns fault); the bytes at and
//                  beyond p+n are the rest of the image: writes there are seen
//                  by comparing memory
// A fault inside the inaccessible areas is recorded, the page is opened and the
// instruction resumed, so that "reported, but only after the access" (handler
// invoked later in the same call) is told apart from "never reported".
//
// This file decides nothing about what is expected: the outcome is a field of
// the vector.  Observed: handler invoked? faults? bytes outside [p,p+n) changed?
//   silent-oob   fault or outside bytes changed, handler never invoked
//   spurious     must_ok but the handler was invoked
//   checked/spec-touched-mismatch  must_assert, yet no handler and no fault in
//                the end-aligned run: the spec's Touched is not what the code
//                touches (infrastructure error, never a verdict)
//
// build: -DVH_DISPATCH="\"<viewgen file>\"" -DC10_DISPATCH="\"<checkedgen file>\""
// usage: c10_checked replay <schema> <vectors.ndjson>
#define SBEPP_ENABLE_ASSERTS_WITH_HANDLER
#include "view_harness.hpp"

#include <array>
#include <initializer_list>
#include <ucontext.h>

namespace vh
{
sigjmp_buf g_jmp;
volatile int g_asserted;
volatile int g_segv;
volatile int g_armed;
const char* volatile g_assert_expr;
volatile long g_assert_line;
} // namespace vh

namespace sbepp
{
[[noreturn]] void assertion_failed(
    char const* expr, char const*, char const*, long line)
{
    vh::g_asserted = 1;
    vh::g_assert_expr = expr;
    vh::g_assert_line = line;
    if(vh::g_armed)
    {
        siglongjmp(vh::g_jmp, 1);
    }
    std::fprintf(stderr, "assertion outside guarded call: %s\n", expr);
    _exit(98);
}
} // namespace sbepp

namespace c10
{
using vh::bytes;
using vh::ipath;
using vh::json;

// ------------------------------------------------------------------ arena --
// [ HEAD inaccessible | DATA read-write | TAIL inaccessible ]
constexpr std::size_t HEAD = std::size_t(1) << 20;
constexpr std::size_t DATA = std::size_t(1) << 14;
constexpr std::size_t TAIL = std::size_t(8) << 20;
constexpr int MAXFAULT = 24;

static char* g_base;
static char* g_data;
static char* g_data_end;
static char* g_top;
static std::size_t g_page;
static char* volatile g_view; // p of the running vector
static volatile int g_nfault;
static volatile int g_hard;
static volatile long g_fault_off[MAXFAULT];
static volatile int g_fault_write[MAXFAULT];
static char* volatile g_opened[MAXFAULT];
static volatile int g_nopened;

static void on_fault(int, siginfo_t* si, void* uc)
{
    if(!vh::g_armed)
    {
        _exit(99);
    }
    char* addr = static_cast<char*>(si->si_addr);
    const bool wr
        = (static_cast<ucontext_t*>(uc)->uc_mcontext.gregs[REG_ERR] & 2) != 0;
    const bool guard = (addr >= g_base && addr < g_data)
                       || (addr >= g_data_end && addr < g_top);
    if(g_nfault < MAXFAULT)
    {
        g_fault_off[g_nfault] = addr - g_view;
        g_fault_write[g_nfault] = wr;
    }
    g_nfault = g_nfault + 1;
    if(guard && g_nopened < MAXFAULT)
    {
        char* page = reinterpret_cast<char*>(
            reinterpret_cast<std::uintptr_t>(addr) & ~(g_page - 1));
        if(mprotect(page, g_page, PROT_READ | PROT_WRITE) == 0)
        {
            g_opened[g_nopened] = page;
            g_nopened = g_nopened + 1;
            return; // resume the faulting instruction
        }
    }
    g_hard = 1;
    siglongjmp(vh::g_jmp, 2);
}

static void arena_init()
{
    g_page = static_cast<std::size_t>(sysconf(_SC_PAGESIZE));
    const std::size_t total = HEAD + DATA + TAIL;
    g_base = static_cast<char*>(mmap(
        nullptr, total, PROT_NONE, MAP_PRIVATE | MAP_ANONYMOUS | MAP_NORESERVE,
        -1, 0));
    if(g_base == MAP_FAILED)
    {
        std::perror("mmap");
        std::exit(3);
    }
    g_data = g_base + HEAD;
    g_data_end = g_data + DATA;
    g_top = g_base + total;
    mprotect(g_data, DATA, PROT_READ | PROT_WRITE);
    struct sigaction sa;
    std::memset(&sa, 0, sizeof(sa));
    sa.sa_sigaction = on_fault;
    sa.sa_flags = SA_SIGINFO | SA_NODEFER;
    sigaction(SIGSEGV, &sa, nullptr);
    sigaction(SIGBUS, &sa, nullptr);
}

static void close_pages()
{
    for(int i = 0; i < g_nopened; i++)
    {
        madvise(g_opened[i], g_page, MADV_DONTNEED);
        mprotect(g_opened[i], g_page, PROT_NONE);
    }
    g_nopened = 0;
}

// --------------------------------------------------------------- registry --
struct call
{
    int opc = 0;
    bool raw = false; // fixed-length array operations: through arr.raw()
    std::vector<long> a;
    bytes v;
};
using fn = std::function<long(char*, std::size_t, ipath, const call&)>;
static std::map<std::string, fn>& reg()
{
    static std::map<std::string, fn> r;
    return r;
}
struct reg_fn
{
    reg_fn(const char* k, fn f)
    {
        reg()[k] = std::move(f);
    }
};

#define C10_OPS(X)                                                            \
    X(leaf_get) X(leaf_set) X(lv_addr) X(lv_size) X(fview) X(fview_size)      \
    X(m_hdr) X(m_hdr_bl) X(m_fill_hdr) X(m_visit)                                      \
    X(arr_at) X(arr_front) X(arr_back) X(arr_data) X(arr_size_bytes)          \
    X(arr_fill) X(arr_assign_n) X(arr_assign_str) X(arr_assign_range)         \
    X(arr_strlen) X(arr_strlen_r)                                             \
    X(g_addr) X(g_hdr) X(g_hdr_bl) X(g_fill) X(g_size) X(g_empty)             \
    X(g_resize) X(g_clear) X(g_size_bytes) X(g_begin) X(g_end) X(g_front)     \
    X(g_back) X(g_at) X(g_inc) X(g_dec) X(g_walk)                             \
    X(d_addr) X(d_size_bytes) X(d_size) X(d_get) X(d_data) X(d_clear)         \
    X(d_push_back) X(d_at) X(d_front) X(d_back) X(d_pop_back) X(d_erase)      \
    X(d_erase_range) X(d_resize) X(d_resize_v) X(d_resize_di) X(d_assign_n)   \
    X(d_assign_range) X(d_assign_it) X(d_assign_str) X(d_assign_ilist)        \
    X(d_insert) X(d_insert_n) X(d_insert_range) X(d_insert_ilist)             \
    X(cget) X(cset)
enum opcode
{
#define X(n) OP_##n,
    C10_OPS(X)
#undef X
        OP_count
};
static int opcode_of(const std::string& s)
{
    static const std::map<std::string, int> m = {
#define X(n) {#n, OP_##n},
        C10_OPS(X)
#undef X
    };
    auto it = m.find(s);
    return it == m.end() ? -1 : it->second;
}

static volatile long g_sink;

template<typename T>
std::vector<T> elems(const bytes& b)
{
    std::vector<T> v;
    for(auto x : b)
        v.push_back(static_cast<T>(x));
    return v;
}
static std::string cstr(const bytes& b)
{
    return std::string(b.begin(), b.end());
}

// every value / view handed to us is consumed, so that the access that
// produced it cannot be optimised away
template<typename T>
typename std::enable_if<
    std::is_enum<T>::value || ::sbepp::is_required_type<T>::value
        || ::sbepp::is_optional_type<T>::value || ::sbepp::is_set<T>::value,
    long>::type
    obs(char*, T v)
{
    const bytes b = vh::enc(v);
    long s = 0;
    for(auto x : b)
        s += x;
    return s;
}
template<typename T>
typename std::enable_if<
    ::sbepp::is_composite<T>::value || ::sbepp::is_array_type<T>::value
        || ::sbepp::is_group<T>::value || ::sbepp::is_data<T>::value,
    long>::type
    obs(char* p, T v)
{
    return ::sbepp::addressof(v) - p;
}

// ---- sbepp::visit with a visitor that descends everywhere
struct walker
{
    char* base = nullptr;
    long seen = 0;
    template<typename T, typename C, typename Tag>
    void on_message(T m, C& c, Tag)
    {
        ::sbepp::visit_children(m, c, *this);
    }
    template<typename T, typename C, typename Tag>
    bool on_group(T g, C& c, Tag)
    {
        ::sbepp::visit_children(g, c, *this);
        return false;
    }
    template<typename T, typename C>
    bool on_entry(T e, C& c)
    {
        ::sbepp::visit_children(e, c, *this);
        return false;
    }
    template<typename T, typename Tag>
    bool on_data(T d, Tag)
    {
        seen += obs(base, d);
        return false;
    }
    template<typename T, typename Tag>
    bool on_field(T f, Tag)
    {
        seen += obs(base, f);
        return false;
    }
};

// ---- fixed-length arrays
template<typename A>
long array_op(A a, char* p, const call& c)
{
    using T = typename A::value_type;
    switch(c.opc)
    {
    case OP_arr_at:
        return static_cast<unsigned char>(a[static_cast<std::size_t>(c.a[0])]);
    case OP_arr_front:
        return static_cast<unsigned char>(a.front());
    case OP_arr_back:
        return static_cast<unsigned char>(a.back());
    case OP_arr_data:
        return reinterpret_cast<char*>(a.data()) - p;
    case OP_arr_size_bytes:
        return static_cast<long>(::sbepp::size_bytes(a));
    case OP_arr_fill:
        a.fill(static_cast<T>(c.a[0]));
        return 0;
    case OP_arr_assign_n:
        return reinterpret_cast<char*>(a.assign(
                   static_cast<std::size_t>(c.a[0]), static_cast<T>(c.a[1])))
               - p;
    case OP_arr_assign_str:
    {
        const std::string s = cstr(c.v);
        return reinterpret_cast<char*>(a.assign_string(s.c_str())) - p;
    }
    case OP_arr_assign_range:
    {
        const auto r = elems<T>(c.v);
        return reinterpret_cast<char*>(a.assign_range(r)) - p;
    }
    case OP_arr_strlen:
        return static_cast<long>(a.strlen());
    case OP_arr_strlen_r:
        return static_cast<long>(a.strlen_r());
    default:
        std::fprintf(stderr, "bad array opcode %d\n", c.opc);
        std::exit(3);
    }
}

// ---- groups
// (a group named `empty` hides the inherited empty() behind its
// injected-class-name: call through the base class)
template<typename Byte, typename Entry, typename Dim>
bool is_empty(const ::sbepp::detail::flat_group_base<Byte, Entry, Dim>& g)
{
    return g.empty();
}
template<typename Byte, typename Entry, typename Dim>
bool is_empty(const ::sbepp::detail::nested_group_base<Byte, Entry, Dim>& g)
{
    return g.empty();
}
template<typename G>
bool group_common(G g, char* p, const call& c, long& r)
{
    using S = typename G::size_type;
    switch(c.opc)
    {
    case OP_g_addr:
        r = ::sbepp::addressof(g) - p;
        return true;
    case OP_g_hdr:
        r = ::sbepp::addressof(::sbepp::get_header(g)) - p;
        return true;
    case OP_g_hdr_bl:
        r = static_cast<long>(::sbepp::get_header(g).blockLength().value());
        return true;
    case OP_g_fill:
        r = ::sbepp::addressof(
                ::sbepp::fill_group_header(g, static_cast<S>(c.a[0])))
            - p;
        return true;
    case OP_g_size:
        r = static_cast<long>(g.size());
        return true;
    case OP_g_empty:
        r = is_empty(g);
        return true;
    case OP_g_resize:
        g.resize(static_cast<S>(c.a[0]));
        return true;
    case OP_g_clear:
        g.clear();
        return true;
    case OP_g_size_bytes:
        r = static_cast<long>(::sbepp::size_bytes(g));
        return true;
    case OP_g_begin:
        r = ::sbepp::addressof(*g.begin()) - p;
        return true;
    case OP_g_front:
        r = ::sbepp::addressof(g.front()) - p;
        return true;
    default:
        return false;
    }
}
template<typename G>
long flat_group_op(G g, char* p, const call& c)
{
    using S = typename G::size_type;
    using Diff = typename G::difference_type;
    long r = 0;
    if(group_common(g, p, c, r))
        return r;
    switch(c.opc)
    {
    case OP_g_end:
        return ::sbepp::addressof(*g.end()) - p;
    case OP_g_back:
        return ::sbepp::addressof(g.back()) - p;
    case OP_g_at:
        return ::sbepp::addressof(g[static_cast<S>(c.a[0])]) - p;
    case OP_g_inc:
    {
        auto it = g.begin();
        it += static_cast<Diff>(c.a[0]);
        ++it;
        return ::sbepp::addressof(*it) - p;
    }
    case OP_g_dec:
    {
        auto it = g.end();
        --it;
        return ::sbepp::addressof(*it) - p;
    }
    default:
        std::fprintf(stderr, "bad flat group opcode %d\n", c.opc);
        std::exit(3);
    }
}
template<typename G>
long nested_group_op(G g, char* p, const call& c)
{
    long r = 0;
    if(group_common(g, p, c, r))
        return r;
    switch(c.opc)
    {
    case OP_g_end:
        return g.begin() == g.end();
    case OP_g_walk:
        for(const auto e : g)
            r += ::sbepp::addressof(e) - p;
        return r;
    default:
        std::fprintf(stderr, "bad nested group opcode %d\n", c.opc);
        std::exit(3);
    }
}

// ---- <data>
template<typename D>
long data_op(D d, char* p, const call& c)
{
    using T = typename D::value_type;
    using S = typename D::size_type;
    const auto at = [&](std::size_t i) { return static_cast<std::ptrdiff_t>(c.a[i]); };
    switch(c.opc)
    {
    case OP_d_addr:
        return ::sbepp::addressof(d) - p;
    case OP_d_size_bytes:
        return static_cast<long>(::sbepp::size_bytes(d));
    case OP_d_size:
        return static_cast<long>(d.size());
    case OP_d_get:
    {
        long s = 0;
        for(auto it = d.begin(); it != d.end(); ++it)
            s += static_cast<unsigned char>(*it);
        return s;
    }
    case OP_d_data:
        return reinterpret_cast<char*>(d.data()) - p;
    case OP_d_clear:
        d.clear();
        return 0;
    case OP_d_push_back:
        d.push_back(static_cast<T>(c.a[0]));
        return 0;
    case OP_d_at:
        return static_cast<unsigned char>(d[static_cast<S>(c.a[0])]);
    case OP_d_front:
        return static_cast<unsigned char>(d.front());
    case OP_d_back:
        return static_cast<unsigned char>(d.back());
    case OP_d_pop_back:
        d.pop_back();
        return 0;
    case OP_d_erase:
        return reinterpret_cast<char*>(d.erase(d.begin() + at(0))) - p;
    case OP_d_erase_range:
        return reinterpret_cast<char*>(
                   d.erase(d.begin() + at(0), d.begin() + at(1)))
               - p;
    case OP_d_resize:
        d.resize(static_cast<S>(c.a[0]));
        return 0;
    case OP_d_resize_v:
        d.resize(static_cast<S>(c.a[0]), static_cast<T>(c.a[1]));
        return 0;
    case OP_d_resize_di:
        d.resize(static_cast<S>(c.a[0]), ::sbepp::default_init);
        return 0;
    case OP_d_assign_n:
        d.assign(static_cast<S>(c.a[0]), static_cast<T>(c.a[1]));
        return 0;
    case OP_d_assign_range:
    {
        const auto r = elems<T>(c.v);
        d.assign_range(r);
        return 0;
    }
    case OP_d_assign_it:
    {
        const auto r = elems<T>(c.v);
        d.assign(r.begin(), r.end());
        return 0;
    }
    case OP_d_assign_str:
    {
        const std::string s = cstr(c.v);
        d.assign_string(s.c_str());
        return 0;
    }
    case OP_d_assign_ilist:
    {
        const auto r = elems<T>(c.v);
        switch(r.size())
        {
        case 0:
            d.assign(std::initializer_list<T>{});
            break;
        case 1:
            d.assign({r[0]});
            break;
        case 2:
            d.assign({r[0], r[1]});
            break;
        default:
            d.assign({r[0], r[1], r[2]});
        }
        return 0;
    }
    case OP_d_insert:
        return reinterpret_cast<char*>(
                   d.insert(d.begin() + at(0), static_cast<T>(c.a[1])))
               - p;
    case OP_d_insert_n:
        return reinterpret_cast<char*>(d.insert(
                   d.begin() + at(0), static_cast<S>(c.a[1]),
                   static_cast<T>(c.a[2])))
               - p;
    case OP_d_insert_range:
    {
        const auto r = elems<T>(c.v);
        return reinterpret_cast<char*>(
                   d.insert(d.begin() + at(0), r.begin(), r.end()))
               - p;
    }
    case OP_d_insert_ilist:
    {
        const auto r = elems<T>(c.v);
        return reinterpret_cast<char*>(
                   d.insert(d.begin() + at(0), {r[0], r[1]}))
               - p;
    }
    default:
        std::fprintf(stderr, "bad data opcode %d\n", c.opc);
        std::exit(3);
    }
}

} // namespace c10

#define C10_REG(PREFIX, KEY, ...)                                             \
    static ::c10::reg_fn VH_CAT(c10_r_, __COUNTER__)(PREFIX KEY, __VA_ARGS__)

#define C10_REG_MESSAGE(KEY, M)                                               \
    C10_REG(                                                                  \
        "msg|", KEY,                                                          \
        [](char* p, std::size_t n, ::vh::ipath, const ::c10::call& c) -> long \
        {                                                                     \
            M m{p, n};                                                        \
            switch(c.opc)                                                     \
            {                                                                 \
            case ::c10::OP_m_hdr:                                             \
                return ::sbepp::addressof(::sbepp::get_header(m)) - p;        \
            case ::c10::OP_m_hdr_bl:                                          \
                return static_cast<long>(                                     \
                    ::sbepp::get_header(m).blockLength().value());            \
            case ::c10::OP_m_visit:                                           \
            {                                                                 \
                ::c10::walker w;                                              \
                w.base = p;                                                   \
                return ::sbepp::visit(m, w).seen;                             \
            }                                                                 \
            default:                                                          \
                return ::sbepp::addressof(::sbepp::fill_message_header(m))    \
                       - p;                                                   \
            }                                                                 \
        })

#define C10_REG_FVIEW(KEY, M, LV, NAME)                                       \
    C10_REG(                                                                  \
        "fview|", KEY,                                                        \
        [](char* p, std::size_t n, ::vh::ipath ip, const ::c10::call& c)      \
            -> long                                                           \
        {                                                                     \
            auto v = LV(M{p, n}, ip).NAME();                                  \
            if(c.opc == ::c10::OP_fview)                                      \
                return ::sbepp::addressof(v) - p;                             \
            return static_cast<long>(::sbepp::size_bytes(v));                 \
        })

#define C10_REG_ARRAY(KEY, M, LV, PARENT, ACC)                                \
    C10_REG(                                                                  \
        "array|", KEY,                                                        \
        [](char* p, std::size_t n, ::vh::ipath ip, const ::c10::call& c)      \
            -> long                                                           \
        {                                                                     \
            auto par = LV(M{p, n}, ip) PARENT;                                \
            if(c.raw)                                                         \
                return ::c10::array_op(par.ACC().raw(), p, c);                \
            return ::c10::array_op(par.ACC(), p, c);                          \
        })

#define C10_REG_GROUP_flat(KEY, M, LV, NAME)                                  \
    C10_REG(                                                                  \
        "group|", KEY,                                                        \
        [](char* p, std::size_t n, ::vh::ipath ip, const ::c10::call& c)      \
            -> long                                                           \
        { return ::c10::flat_group_op(LV(M{p, n}, ip).NAME(), p, c); })
#define C10_REG_GROUP_nested(KEY, M, LV, NAME)                                \
    C10_REG(                                                                  \
        "group|", KEY,                                                        \
        [](char* p, std::size_t n, ::vh::ipath ip, const ::c10::call& c)      \
            -> long                                                           \
        { return ::c10::nested_group_op(LV(M{p, n}, ip).NAME(), p, c); })

#define C10_REG_DATA(KEY, M, LV, NAME)                                        \
    C10_REG(                                                                  \
        "data|", KEY,                                                         \
        [](char* p, std::size_t n, ::vh::ipath ip, const ::c10::call& c)      \
            -> long                                                           \
        { return ::c10::data_op(LV(M{p, n}, ip).NAME(), p, c); })

// c.a = {wrapper, cursor offset relative to p (or < 0: unset)}
#define C10_CURSOR_PROLOGUE(M, LV)                                            \
    auto lv = LV(M{p, n}, ip);                                                \
    ::sbepp::cursor<VH_BYTE> cur;                                             \
    cur.pointer() = c.a[1] < 0 ? nullptr : p + c.a[1];                        \
    long r = 0

#define C10_CGET(M, LV, NAME)                                                 \
    C10_CURSOR_PROLOGUE(M, LV);                                               \
    switch(c.a[0])                                                            \
    {                                                                         \
    case 0:                                                                   \
        r = ::c10::obs(p, lv.NAME(cur));                                      \
        break;                                                                \
    case 1:                                                                   \
        r = ::c10::obs(p, lv.NAME(::sbepp::cursor_ops::init(cur)));           \
        break;                                                                \
    case 2:                                                                   \
        r = ::c10::obs(p, lv.NAME(::sbepp::cursor_ops::dont_move(cur)));      \
        break;                                                                \
    case 3:                                                                   \
        r = ::c10::obs(p, lv.NAME(::sbepp::cursor_ops::init_dont_move(cur))); \
        break;                                                                \
    default:                                                                  \
        lv.NAME(::sbepp::cursor_ops::skip(cur));                              \
    }                                                                         \
    return r + (cur.pointer() ? cur.pointer() - p : 0)

#define C10_REG_CMEMBER_view(KEY, M, LV, NAME)                                \
    C10_REG(                                                                  \
        "cm|", KEY,                                                           \
        [](char* p, std::size_t n, ::vh::ipath ip, const ::c10::call& c)      \
            -> long { C10_CGET(M, LV, NAME); })

#define C10_REG_CMEMBER_scalar(KEY, M, LV, NAME)                              \
    C10_REG(                                                                  \
        "cm|", KEY,                                                           \
        [](char* p, std::size_t n, ::vh::ipath ip, const ::c10::call& c)      \
            -> long                                                           \
        {                                                                     \
            if(c.opc == ::c10::OP_cget)                                       \
            {                                                                 \
                C10_CGET(M, LV, NAME);                                        \
            }                                                                 \
            C10_CURSOR_PROLOGUE(M, LV);                                       \
            auto val = ::vh::dec<decltype(lv.NAME())>(c.v);                   \
            switch(c.a[0])                                                    \
            {                                                                 \
            case 0:                                                           \
                lv.NAME(val, cur);                                            \
                break;                                                        \
            case 1:                                                           \
                lv.NAME(val, ::sbepp::cursor_ops::init(cur));                 \
                break;                                                        \
            case 2:                                                           \
                lv.NAME(val, ::sbepp::cursor_ops::dont_move(cur));            \
                break;                                                        \
            default:                                                          \
                lv.NAME(val, ::sbepp::cursor_ops::init_dont_move(cur));       \
            }                                                                 \
            return r + (cur.pointer() ? cur.pointer() - p : 0);               \
        })

#include VH_DISPATCH
#include C10_DISPATCH

using namespace vh;

// ------------------------------------------------------------------ replay --
namespace
{
report rep;
std::string g_schema;

std::string join(const json& a, const char* sep = "/")
{
    std::string s;
    for(const auto& x : a)
    {
        if(!s.empty())
            s += sep;
        s += x.get<std::string>();
    }
    return s;
}

struct op_t
{
    std::string cls, kind, sigkind;
    std::function<long(char*, std::size_t)> run;
    bool far = false;
    bool writes = false;
    const json* src = nullptr;
};

struct image_t
{
    json rec; // the c10img record
    bytes buf;
    std::size_t v0 = 0, full = 0;
    std::string msg;
    std::vector<op_t> ops;
};

const char* wrapper_name(long w)
{
    static const char* n[] = {"plain", "init", "dont_move", "init_dont_move", "skip"};
    return (w >= 0 && w < 5) ? n[w] : "?";
}

op_t resolve(const image_t& im, const json& o)
{
    auto& R = registry::get();
    op_t op;
    op.cls = o["cls"].get<std::string>();
    op.kind = o["kind"].get<std::string>();
    op.sigkind = op.kind;
    op.far = o["far"].get<bool>();
    op.src = &o;
    // "rarr_x": the array operation x through the byte-typed view arr.raw()
    const bool raw = op.kind.compare(0, 5, "rarr_") == 0;
    const int opc = c10::opcode_of(raw ? op.kind.substr(1) : op.kind);
    if(opc < 0)
    {
        std::fprintf(stderr, "unknown operation kind %s\n", op.kind.c_str());
        std::exit(3);
    }
    const std::string lkey = im.msg + ":" + join(o["level"]);
    const std::string name = join(o["name"]);
    auto ipv = std::make_shared<std::vector<int>>();
    for(const auto& x : o["ip"])
        ipv->push_back(x.get<int>() - 1);
    ipv->push_back(0);
    auto cl = std::make_shared<c10::call>();
    cl->opc = opc;
    cl->raw = raw;
    for(const auto& x : o["a"])
        cl->a.push_back(x.get<long>());
    cl->v = to_bytes(o["v"]);
    const auto own = [&](const std::string& key)
    {
        auto it = c10::reg().find(key);
        if(it == c10::reg().end())
        {
            std::fprintf(stderr, "no registered operation %s\n", key.c_str());
            std::exit(3);
        }
        const c10::fn* f = &it->second;
        op.run = [f, ipv, cl](char* p, std::size_t n)
        { return (*f)(p, n, ipv->data(), *cl); };
    };
    switch(opc)
    {
    case c10::OP_leaf_get:
    {
        const auto* lo = &R.leaves.at(lkey + ":" + name);
        op.run = [lo, ipv](char* p, std::size_t n)
        {
            long s = 0;
            for(auto x : lo->get(p, n, ipv->data()))
                s += x;
            return s;
        };
        break;
    }
    case c10::OP_leaf_set:
    {
        const auto* lo = &R.leaves.at(lkey + ":" + name);
        op.run = [lo, ipv, cl](char* p, std::size_t n)
        {
            lo->set(p, n, ipv->data(), cl->v);
            return 0L;
        };
        break;
    }
    case c10::OP_lv_addr:
    {
        const auto* lo = &R.levels.at(lkey);
        op.run = [lo, ipv](char* p, std::size_t n)
        { return static_cast<long>(lo->addr(p, n, ipv->data())); };
        break;
    }
    case c10::OP_lv_size:
    {
        const auto* lo = &R.levels.at(lkey);
        op.run = [lo, ipv](char* p, std::size_t n)
        { return static_cast<long>(lo->size_bytes(p, n, ipv->data())); };
        break;
    }
    case c10::OP_m_hdr:
    case c10::OP_m_hdr_bl:
    case c10::OP_m_fill_hdr:
    case c10::OP_m_visit:
        own("msg|" + im.msg);
        break;
    case c10::OP_fview:
    case c10::OP_fview_size:
        own("fview|" + lkey + ":" + name);
        break;
    case c10::OP_cget:
    case c10::OP_cset:
        // the cursor position is an absolute offset of the image
        if(cl->a[1] >= 0)
            cl->a[1] -= static_cast<long>(im.v0);
        op.sigkind = op.kind + "/w=" + wrapper_name(cl->a[0]);
        own("cm|" + lkey + ":" + name);
        break;
    default:
        if(op.kind.compare(0, 4, "arr_") == 0 || raw)
            own("array|" + lkey + ":" + name);
        else if(op.kind.compare(0, 2, "g_") == 0)
            own("group|" + lkey + ":" + name);
        else if(op.kind.compare(0, 2, "d_") == 0)
            own("data|" + lkey + ":" + name);
        else
        {
            std::fprintf(stderr, "unroutable operation %s\n", op.kind.c_str());
            std::exit(3);
        }
    }
    return op;
}

// state of one execution
struct obs_t
{
    bool asserted = false;
    int nfault = 0;
    bool hard = false;
    bool first_write = false;
    long first_off = 0;
    bool outside_changed = false;
    long changed_at = 0;
    std::string expr;
    long line = 0;
};

const std::function<long(char*, std::size_t)>* volatile g_run;
char* volatile g_p;
volatile std::size_t g_n;

bytes g_shadow(c10::DATA);

obs_t execute(const image_t& im, const op_t& op, std::size_t n, bool end_aligned)
{
    // same bytes, two placements
    // the accessible memory around the image is zero, like a page opened after
    // a fault: whatever the code derives from bytes that are not part of the
    // vector stays small, so a stray access stays inside the arena
    char* p;
    std::memset(c10::g_data, 0, c10::DATA);
    std::memset(g_shadow.data(), 0, c10::DATA);
    if(end_aligned)
    {
        p = c10::g_data_end - n;
        std::memcpy(p - im.v0, im.buf.data(), im.v0 + n);
        std::memcpy(
            g_shadow.data() + (p - im.v0 - c10::g_data), im.buf.data(),
            im.v0 + n);
    }
    else
    {
        p = c10::g_data;
        std::memcpy(p, im.buf.data() + im.v0, im.buf.size() - im.v0);
        std::memcpy(
            g_shadow.data(), im.buf.data() + im.v0, im.buf.size() - im.v0);
    }
    c10::g_view = p;
    c10::g_nfault = 0;
    c10::g_hard = 0;
    c10::g_nopened = 0;
    g_asserted = 0;
    g_assert_expr = nullptr;
    g_run = &op.run;
    g_p = p;
    g_n = n;
    g_armed = 1;
    if(sigsetjmp(g_jmp, 1) == 0)
    {
        c10::g_sink = (*g_run)(g_p, g_n);
    }
    g_armed = 0;
    c10::close_pages();
    obs_t o;
    o.asserted = g_asserted != 0;
    o.nfault = c10::g_nfault;
    o.hard = c10::g_hard != 0;
    if(o.nfault)
    {
        o.first_off = c10::g_fault_off[0];
        o.first_write = c10::g_fault_write[0] != 0;
    }
    if(o.asserted)
    {
        o.expr = g_assert_expr ? (const char*)g_assert_expr : "?";
        o.line = g_assert_line;
    }
    // bytes outside [p, p+n)
    const std::size_t lo = static_cast<std::size_t>(p - c10::g_data);
    const std::size_t hi = lo + n;
    for(std::size_t i = 0; i < c10::DATA; i++)
    {
        if(i >= lo && i < hi)
        {
            i = hi - 1;
            continue;
        }
        if(static_cast<unsigned char>(c10::g_data[i]) != g_shadow[i])
        {
            o.outside_changed = true;
            o.changed_at = static_cast<long>(i) - static_cast<long>(lo);
            break;
        }
    }
    return o;
}

const char* outcome_name(int c)
{
    return c % 3 == 1 ? "must_ok" : c % 3 == 2 ? "either" : "must_assert";
}

std::uint64_t n_vectors, n_runs, n_far, n_late, n_late_write;
std::map<std::string, std::uint64_t> outcome_count, late_kinds;
std::vector<json> late_samples;

json logical_vector(const image_t& im, const op_t& op, std::size_t n, int code)
{
    const json& o = *op.src;
    json v;
    v["kind"] = "checked";
    v["schema"] = g_schema;
    v["msg"] = im.msg;
    v["img"] = im.rec["img"];
    v["hv"] = im.rec["hv"];
    v["buf"] = im.rec["buf"];
    v["v0"] = im.v0;
    v["n"] = n;
    v["op"] = {{"cls", o["cls"]}, {"kind", o["kind"]}, {"level", o["level"]},
               {"ip", o["ip"]}, {"name", o["name"]}, {"a", o["a"]}, {"v", o["v"]},
               {"pre", o["pre"]}};
    v["outcome"] = outcome_name(code);
    v["receiver_beyond_end"] = code >= 3;
    v["touched"] = o["tr"];
    v["req"] = o["rq"];
    return v;
}

json observed(const obs_t& o, bool end_aligned)
{
    json j;
    j["placement"] = end_aligned ? "end-aligned" : "start-aligned";
    j["handler_invoked"] = o.asserted;
    if(o.asserted)
    {
        j["assertion"] = o.expr;
        j["sbepp_hpp_line"] = o.line;
    }
    j["faults"] = o.nfault;
    if(o.nfault)
    {
        j["first_fault_offset_from_p"] = o.first_off;
        j["first_fault_is_write"] = o.first_write;
        j["unrecoverable_fault"] = o.hard;
    }
    j["bytes_outside_view_changed"] = o.outside_changed;
    if(o.outside_changed)
        j["first_changed_offset_from_p"] = o.changed_at;
    return j;
}

void one(const image_t& im, const op_t& op, std::size_t n, int code)
{
    n_vectors++;
    outcome_count[outcome_name(code)]++;
    if(op.far)
    {
        n_far++;
        return;
    }
    for(int pl = 0; pl < 2; pl++)
    {
        const bool end_aligned = pl == 0;
        n_runs++;
        const obs_t o = execute(im, op, n, end_aligned);
        const bool beyond = o.nfault > 0 || o.outside_changed;
        const std::string place = end_aligned ? "end-aligned" : "start-aligned";
        const std::string recv
            = code >= 3 ? "receiver-beyond-end" : "receiver-inside";
        const int oc = code % 3; // 0 must_assert, 1 must_ok, 2 either
        std::string sig, desc;
        if(beyond && !o.asserted)
        {
            sig = "silent-oob/" + op.sigkind + "/" + recv + "/"
                  + outcome_name(code) + "/" + place;
            desc = op.kind + " on a " + std::to_string(n) + "-byte view "
                   + (o.nfault ? std::string(o.first_write ? "wrote" : "read")
                                     + " memory at p"
                                     + (o.first_off >= 0 ? "+" : "")
                                     + std::to_string(o.first_off)
                               : "changed the byte at p+"
                                     + std::to_string(o.changed_at))
                   + " and the assertion handler was never invoked";
        }
        else if(o.asserted && oc == 1)
        {
            sig = "spurious/" + op.sigkind + "/" + place;
            desc = op.kind + " on a " + std::to_string(n)
                   + "-byte view: everything the documentation requires is "
                     "inside the view and the preconditions hold, yet the "
                     "handler was invoked: "
                   + o.expr + " (sbepp.hpp:" + std::to_string(o.line) + ")";
        }
        else if(!o.asserted && !beyond && end_aligned && oc == 0)
        {
            sig = "checked/spec-touched-mismatch/" + op.sigkind;
            desc = "spec says " + op.kind
                   + " must touch bytes outside the view, the code neither "
                     "asserted nor faulted";
        }
        if(!sig.empty())
        {
            json cs = logical_vector(im, op, n, code);
            cs["observed"] = observed(o, end_aligned);
            rep.mismatch(sig, desc, cs);
            continue;
        }
        if(beyond && o.asserted)
        {
            // reported, but only after the access
            n_late++;
            if(o.first_write || o.outside_changed)
                n_late_write++;
            const std::string k = op.sigkind + "/"
                                  + ((o.first_write || o.outside_changed) ? "write" : "read");
            if(late_kinds[k]++ == 0 && late_samples.size() < 12)
            {
                json cs = logical_vector(im, op, n, code);
                cs.erase("buf");
                cs["observed"] = observed(o, end_aligned);
                late_samples.push_back(cs);
            }
        }
        rep.ok(op.cls);
    }
}
} // namespace

int main(int argc, char** argv)
{
    if(argc < 4 || std::string(argv[1]) != "replay")
    {
        std::fprintf(stderr, "usage: c10_checked replay <schema> <vectors>\n");
        return 3;
    }
    c10::arena_init();
    g_schema = argv[2];
    std::map<std::string, std::unique_ptr<image_t>> images;
    for_each_line(
        argv[3],
        [&](const json& v)
        {
            const std::string k = v["kind"].get<std::string>();
            const std::string id = v["msg"].get<std::string>() + v["img"].dump();
            if(k == "c10img")
            {
                std::unique_ptr<image_t> im(new image_t);
                im->rec = v;
                im->buf = to_bytes(v["buf"]);
                im->v0 = v["v0"].get<std::size_t>();
                im->full = v["full"].get<std::size_t>();
                im->msg = v["msg"].get<std::string>();
                if(im->buf.size() > c10::DATA / 2)
                {
                    std::fprintf(stderr, "image too large for the arena\n");
                    std::exit(3);
                }
                for(const auto& o : im->rec["ops"])
                    im->ops.push_back(resolve(*im, o));
                images[id] = std::move(im);
            }
            else if(k == "c10n")
            {
                auto it = images.find(id);
                if(it == images.end())
                {
                    std::fprintf(stderr, "outcomes before image %s\n", id.c_str());
                    std::exit(3);
                }
                const image_t& im = *it->second;
                const std::size_t n = v["n"].get<std::size_t>();
                const json& out = v["out"];
                if(out.size() != im.ops.size())
                {
                    std::fprintf(stderr, "outcome / operation count mismatch\n");
                    std::exit(3);
                }
                for(std::size_t i = 0; i < im.ops.size(); i++)
                    one(im, im.ops[i], n, out[i].get<int>());
            }
        });
    json extra;
    extra["vectors"] = n_vectors;
    extra["runs"] = n_runs;
    extra["skipped_far"] = n_far;
    extra["images"] = images.size();
    extra["outcomes"] = outcome_count;
    extra["reported_after_access"] = n_late;
    extra["reported_after_write"] = n_late_write;
    extra["reported_after_access_kinds"] = late_kinds;
    extra["reported_after_access_samples"] = late_samples;
    rep.finish(extra);
    return 0;
}
