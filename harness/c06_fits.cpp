// C06 conformance harness: replays Fits.tla vectors against the real
// sbepp::size_bytes_checked of the sbeppc-generated message and group views.
//
// For each vector the first (start + n) bytes of the buffer are placed
// END-ALIGNED against a PROT_NONE page, so that a read at view offset >= n
// faults.  The call runs under guarded(): SIGSEGV, an invoked assertion
// handler (checked builds) and exceeding the step / CPU budget are all
// observable outcomes.  Expected valid / size / max_steps are fields of the
// vector (computed by TLC); this file never decides what is expected.
//
// build: -DVH_DISPATCH="\"<viewgen dispatch>\"" -DC06_DISPATCH="\"<fitsgen dispatch>\""
//        [-DC06_CHECKED]   assertions + size checks on, with handler
//                          (default: SBEPP_DISABLE_ASSERTS - what a release
//                          build that validates untrusted input runs)
// usage: c06_fits replay <schema> <vectors.ndjson> [cpu_budget_ms]
//
// Step counting: when /repo's sbepp.hpp carries the SBEPP_VERIF step hook
// (hooks/sbepp_step_counter.patch; it defines SBEPP_VERIF_HAS_STEP_HOOK) the
// work of each call is a deterministic count compared with the vector's
// max_steps, and a runaway call is aborted by the counter.  Without the hook
// only a CPU-time budget per call (>= 10^5 x the normal cost) detects
// unbounded work.
#ifdef C06_CHECKED
#    define SBEPP_ENABLE_ASSERTS_WITH_HANDLER
#else
#    define SBEPP_DISABLE_ASSERTS
#endif

#include <algorithm>
#include <csetjmp>
namespace c06
{
extern volatile unsigned long long g_steps;
extern volatile unsigned long long g_step_limit;
void over_limit();
// constexpr-declared so that it may be called from sbepp's constexpr
// functions; never evaluated in a constant expression
template<typename T = void>
constexpr int step()
{
    return (++g_steps > g_step_limit) ? (over_limit(), 1) : 0;
}
} // namespace c06
#define SBEPP_VERIF_STEP() ((void)::c06::step<>())

#include "view_harness.hpp"

#include <sys/time.h>
#include <time.h>

namespace vh
{
sigjmp_buf g_jmp;
volatile int g_asserted;
volatile int g_segv;
volatile int g_armed;
const char* volatile g_assert_expr;
volatile long g_assert_line;
} // namespace vh

namespace c06
{
volatile unsigned long long g_steps;
volatile unsigned long long g_step_limit = ~0ull;
volatile int g_over;    // step limit exceeded (hook)
volatile int g_timeout; // CPU budget exceeded
volatile int g_phase;   // 0: navigating to the view, 1: inside size_bytes_checked
void* volatile g_fault_addr;
const char* volatile g_assert_fn;

void over_limit()
{
    g_over = 1;
    if(vh::g_armed)
        siglongjmp(vh::g_jmp, 4);
}

struct result
{
    bool valid;
    std::uint64_t size;
};

using msg_fn = std::function<result(char*, std::size_t)>;
using grp_fn = std::function<result(char*, std::size_t, vh::ipath, std::size_t)>;
struct registry
{
    std::map<std::string, msg_fn> messages;
    std::map<std::string, grp_fn> groups;
    static registry& get()
    {
        static registry r;
        return r;
    }
};
struct reg_msg
{
    reg_msg(const char* k, msg_fn f)
    {
        registry::get().messages[k] = std::move(f);
    }
};
struct reg_grp
{
    reg_grp(const char* k, grp_fn f)
    {
        registry::get().groups[k] = std::move(f);
    }
};

inline void enter_call()
{
    g_steps = 0;
    g_phase = 1;
}
} // namespace c06

#ifdef C06_CHECKED
namespace sbepp
{
[[noreturn]] void assertion_failed(
    char const* expr, char const* function, char const*, long line)
{
    vh::g_asserted = 1;
    vh::g_assert_expr = expr;
    vh::g_assert_line = line;
    c06::g_assert_fn = function;
    if(vh::g_armed)
    {
        siglongjmp(vh::g_jmp, 1);
    }
    std::fprintf(stderr, "assertion outside guarded call: %s\n", expr);
    _exit(98);
}
} // namespace sbepp
#endif

// size_bytes_checked on a message view of n bytes
#define C06_REG_MESSAGE(KEY, M)                                               \
    static ::c06::reg_msg VH_CAT(c06_r_, __COUNTER__)(                        \
        KEY,                                                                  \
        [](char* p, std::size_t n) -> ::c06::result                           \
        {                                                                     \
            M m{p, n};                                                        \
            ::c06::enter_call();                                              \
            const auto r = ::sbepp::size_bytes_checked(m, n);                 \
            return ::c06::result{r.valid, static_cast<std::uint64_t>(r.size)}; \
        })

// size_bytes_checked on the group view NAME of level LV (message view over
// the `total` accessible bytes; the group itself gets the budget n)
#define C06_REG_GROUP(KEY, M, LV, NAME)                                       \
    static ::c06::reg_grp VH_CAT(c06_r_, __COUNTER__)(                        \
        KEY,                                                                  \
        [](char* p, std::size_t total, ::vh::ipath ip, std::size_t n)         \
            -> ::c06::result                                                  \
        {                                                                     \
            auto g = LV(M{p, total}, ip).NAME();                              \
            ::c06::enter_call();                                              \
            const auto r = ::sbepp::size_bytes_checked(g, n);                 \
            return ::c06::result{r.valid, static_cast<std::uint64_t>(r.size)}; \
        })

#include VH_DISPATCH
#include C06_DISPATCH

using namespace vh;

static report rep;
static std::string g_schema;
static long g_budget_ms = 200;
static std::uint64_t g_calls, g_timeouts, g_skipped, g_max_ns, g_sum_ns, g_max_steps_seen;
static std::map<std::string, int> g_hangs; // (msg, view, corruption) -> timeouts seen

#ifdef SBEPP_VERIF_HAS_STEP_HOOK
static const bool k_hook = true;
#else
static const bool k_hook = false;
#endif
#ifdef C06_CHECKED
static const char* k_mode = "checked";
#else
static const char* k_mode = "unchecked";
#endif

static void on_fault(int, siginfo_t* si, void*)
{
    if(g_armed)
    {
        g_segv = 1;
        c06::g_fault_addr = si ? si->si_addr : nullptr;
        siglongjmp(g_jmp, 2);
    }
    _exit(99);
}

static void on_vtalrm(int)
{
    if(g_armed)
    {
        c06::g_timeout = 1;
        siglongjmp(g_jmp, 3);
    }
}

static void install()
{
    struct sigaction sa;
    std::memset(&sa, 0, sizeof(sa));
    sa.sa_sigaction = on_fault;
    sa.sa_flags = SA_SIGINFO | SA_NODEFER;
    sigaction(SIGSEGV, &sa, nullptr);
    sigaction(SIGBUS, &sa, nullptr);
    struct sigaction st;
    std::memset(&st, 0, sizeof(st));
    st.sa_handler = on_vtalrm;
    st.sa_flags = SA_NODEFER;
    sigaction(SIGVTALRM, &st, nullptr);
}

static void arm_timer(long ms)
{
    struct itimerval it;
    std::memset(&it, 0, sizeof(it));
    it.it_value.tv_sec = ms / 1000;
    it.it_value.tv_usec = (ms % 1000) * 1000;
    setitimer(ITIMER_VIRTUAL, &it, nullptr);
}

static std::uint64_t cpu_ns()
{
    timespec ts;
    clock_gettime(CLOCK_THREAD_CPUTIME_ID, &ts);
    return static_cast<std::uint64_t>(ts.tv_sec) * 1000000000ull + ts.tv_nsec;
}

static std::string join(const json& a, const char* sep)
{
    std::string s;
    for(const auto& x : a)
    {
        if(!s.empty())
            s += sep;
        s += x.get<std::string>();
    }
    return s;
}

// name of the asserting function, without schema-specific parts
// (the cursor's own accessors check `(ptr) && ...`, everything else checks
// `(view(addressof_tag{})) && ...` / `((*this)(addressof_tag{})) && ...`)
static std::string fn_class(const char* fn, const char* expr)
{
    std::string f = fn ? fn : "?";
    const std::string e = expr ? expr : "";
    const std::string suffix = "_entry";
    if(f.size() > suffix.size()
       && f.compare(f.size() - suffix.size(), suffix.size(), suffix) == 0)
        return "entry-ctor";
    if(e.compare(0, 5, "(ptr)") == 0)
        return "cursor-" + f;
    return f;
}

static void fits(const json& v)
{
    auto& R = c06::registry::get();
    const std::string msg = v["msg"].get<std::string>();
    const std::string view = v["view"].get<std::string>();
    const std::size_t v0 = v["v0"].get<std::size_t>();
    const std::size_t start = v["start"].get<std::size_t>();
    const std::size_t n = v["n"].get<std::size_t>();
    const bool exp_valid = v["valid"].get<bool>();
    const std::uint64_t exp_size = v["size"].get<std::uint64_t>();
    const std::uint64_t max_steps = v["max_steps"].get<std::uint64_t>();
    const std::string cor = v["cor"].get<std::string>();
    const std::string ncls = v["ncls"].get<std::string>();
    const std::string why = v["why"].get<std::string>();
    const bool shortb = v["short"].get<bool>();
    const bool zf = v["zf"].get<bool>();
    const std::size_t at = v["at"].get<std::size_t>();
    const bytes all = to_bytes(v["buf"]);
    const std::size_t total = start + n; // accessible bytes, from region start

    std::string key = msg;
    std::vector<int> ipv;
    if(view == "group")
    {
        key = msg + ":" + join(v["level"], "/") + ":"
              + v["name"].get<std::string>();
        for(const auto& x : v["ip"])
            ipv.push_back(x.get<int>() - 1);
    }
    ipv.push_back(0);
    const int* ip = ipv.data();

    json cs = {{"schema", g_schema}, {"msg", msg},   {"view", view},
               {"key", key},         {"ip", v["ip"]}, {"start", start},
               {"n", n},             {"cor", cor},    {"ops", v["ops"]},
               {"ncls", ncls},       {"why", why},    {"at", at},
               {"short", shortb},    {"zf", zf},      {"mode", k_mode},
               {"expected_valid", exp_valid},         {"expected_size", exp_size},
               {"buf", hex(bytes(all.begin(), all.begin() + std::min(all.size(), total)))},
               {"vector", v}};
    const std::string vkind = view == "group" ? "group" : "message";

    if(total > all.size())
    {
        rep.mismatch("harness/vector", "n exceeds the buffer of the vector", cs);
        return;
    }
    // a class that already ran into the CPU budget three times is not run
    // again (only without the step hook; the class has been reported)
    const std::string hkey = msg + "|" + key + "|" + cor;
    if(!k_hook && g_hangs[hkey] >= 3)
    {
        g_skipped++;
        return;
    }

    region reg(total, true);
    reg.load(all);
    reg.readonly();
    char* p0 = reg.data();
    char* pm = p0 + v0;
    rep.note_distinct(key + "#" + std::to_string(n) + "#" + cs["buf"].get<std::string>());

    c06::result got{false, 0};
    c06::g_over = 0;
    c06::g_timeout = 0;
    c06::g_phase = 0;
    c06::g_fault_addr = nullptr;
    c06::g_assert_fn = nullptr;
    c06::g_steps = 0;
    // the counter aborts a runaway call well past the bound it is compared with
    c06::g_step_limit = k_hook ? (max_steps * 4 + 1024) : ~0ull;
    bool done;
    arm_timer(g_budget_ms);
    const std::uint64_t t0 = cpu_ns();
    if(view == "group")
    {
        const auto& f = R.groups.at(key);
        done = guarded([&] { got = f(pm, total - v0, ip, n); });
    }
    else
    {
        const auto& f = R.messages.at(key);
        done = guarded([&] { got = f(pm, n); });
    }
    const std::uint64_t dt = cpu_ns() - t0;
    arm_timer(0);
    const std::uint64_t steps = c06::g_steps;
    g_calls++;
    cs["steps"] = steps;
    cs["max_steps"] = max_steps;

    if(!done && c06::g_phase == 0)
    {
        rep.mismatch(
            "harness/nav/" + vkind,
            "navigating to the group view over a well-formed prefix trapped "
            "(not a verdict on size_bytes_checked)",
            cs);
        return;
    }
    const std::string block = shortb ? "short-block" : "full-block";
    if(!done && g_segv)
    {
        const std::ptrdiff_t off
            = static_cast<char*>(c06::g_fault_addr) - p0; // region offset
        cs["fault_offset"] = off;
        cs["fault_view_offset"] = off - static_cast<std::ptrdiff_t>(start);
        // which read was it?  A read of w bytes at o faults at max(o, total).
        //  - a compiled scalar field of a visited block whose wire blockLength
        //    is smaller than the compiled extent (vector: freads)
        //  - the <data> length prefix that does not fit (vector: why/at/lenw)
        std::string what;
        const std::ptrdiff_t tot = static_cast<std::ptrdiff_t>(total);
        for(const auto& r : v["freads"])
        {
            const std::ptrdiff_t o = r["off"].get<std::ptrdiff_t>();
            const std::ptrdiff_t w = r["w"].get<std::ptrdiff_t>();
            if(o + w > tot && off == std::max(o, tot))
                what = "field-beyond-wire-block";
        }
        const std::ptrdiff_t lenw = v["lenw"].get<std::ptrdiff_t>();
        if(what.empty() && why == "dlen"
           && off == std::max(static_cast<std::ptrdiff_t>(at), tot)
           && off < static_cast<std::ptrdiff_t>(at) + lenw)
            what = "dlen";
        if(what.empty())
            what = "other-" + (why.empty() ? std::string("valid") : why);
        rep.mismatch(
            "fits/read-past-n/" + what + "/" + vkind + "/" + cor,
            "size_bytes_checked(" + vkind + " view, " + std::to_string(n)
                + ") read the byte at view offset "
                + std::to_string(off - static_cast<std::ptrdiff_t>(start))
                + " (guard page hit); the first member that does not fit is '"
                + why + "' at " + std::to_string(at - start),
            cs);
        return;
    }
    if(!done && g_asserted)
    {
        cs["assert_expr"] = g_assert_expr ? (const char*)g_assert_expr : "?";
        cs["assert_fn"] = c06::g_assert_fn ? (const char*)c06::g_assert_fn : "?";
        cs["assert_line"] = g_assert_line;
        rep.mismatch(
            "fits/assert/" + (why.empty() ? std::string("valid") : why) + "/"
                + block + "/" + fn_class(c06::g_assert_fn, (const char*)g_assert_expr) + "/" + vkind + "/"
                + cor,
            std::string("size_bytes_checked is total, yet the assertion handler "
                        "was invoked: ")
                + (g_assert_expr ? (const char*)g_assert_expr : "?") + " in "
                + (c06::g_assert_fn ? (const char*)c06::g_assert_fn : "?")
                + " (sbepp.hpp:" + std::to_string(g_assert_line) + "), n = "
                + std::to_string(n) + ", first member that does not fit: '" + why
                + "'",
            cs);
        return;
    }
    const std::string work = zf ? "zero-length-flat-entries" : "other";
    if(!done && (c06::g_timeout || c06::g_over))
    {
        if(c06::g_timeout)
        {
            g_timeouts++;
            g_hangs[hkey]++;
        }
        rep.mismatch(
            "fits/steps/" + work + "/" + vkind + "/" + cor,
            c06::g_over
                ? "work not bounded by n: aborted after " + std::to_string(steps)
                      + " validate steps, bound " + std::to_string(max_steps)
                      + " for n = " + std::to_string(n)
                : "work not bounded by n: call exceeded the CPU budget of "
                      + std::to_string(g_budget_ms) + " ms (n = "
                      + std::to_string(n) + ")",
            cs);
        return;
    }
    if(!done)
    {
        rep.mismatch("harness/unknown-trap", "call did not return", cs);
        return;
    }
    g_sum_ns += dt;
    if(dt > g_max_ns)
        g_max_ns = dt;
    if(steps > g_max_steps_seen)
        g_max_steps_seen = steps;
    cs["got_valid"] = got.valid;
    cs["got_size"] = got.size;
    if(got.valid != exp_valid)
    {
        rep.mismatch(
            "fits/valid/" + vkind + "/" + cor + "/" + ncls + "/"
                + (got.valid ? "accepted" : "rejected"),
            std::string("valid = ") + (got.valid ? "true" : "false") + " (size "
                + std::to_string(got.size) + "), but the structure the buffer describes "
                + (exp_valid ? "fits in " : "does not fit in ") + std::to_string(n)
                + " bytes" + (exp_valid ? " (size " + std::to_string(exp_size) + ")" : "")
                + (exp_valid ? "" : "; first member that does not fit: '" + why + "'"),
            cs);
    }
    else if(got.valid && got.size != exp_size)
    {
        rep.mismatch(
            "fits/size/" + vkind + "/" + cor + "/" + ncls,
            "valid, but size = " + std::to_string(got.size) + ", exact size "
                + std::to_string(exp_size),
            cs);
    }
    else
        rep.ok(std::string("fits-") + vkind + (got.valid ? "-valid" : "-invalid"));
    if(k_hook)
    {
        if(steps > max_steps)
            rep.mismatch(
                "fits/steps/" + work + "/" + vkind + "/" + cor,
                "work not bounded by n: " + std::to_string(steps)
                    + " validate steps, bound " + std::to_string(max_steps)
                    + " for n = " + std::to_string(n),
                cs);
        else
            rep.ok("fits-steps");
    }
}

int main(int argc, char** argv)
{
    install();
    if(argc >= 4 && std::string(argv[1]) == "replay")
    {
        g_schema = argv[2];
        if(argc >= 5)
            g_budget_ms = std::atol(argv[4]);
        for_each_line(
            argv[3],
            [](const json& v)
            {
                if(v["kind"].get<std::string>() == "fits")
                    fits(v);
            });
        json extra;
        extra["hook"] = k_hook;
        extra["mode"] = k_mode;
        extra["calls"] = g_calls;
        extra["timeouts"] = g_timeouts;
        extra["skipped_after_repeated_timeout"] = g_skipped;
        extra["max_call_ns"] = g_max_ns;
        extra["mean_call_ns"] = g_calls ? g_sum_ns / g_calls : 0;
        extra["cpu_budget_ms"] = g_budget_ms;
        extra["max_steps_seen"] = g_max_steps_seen;
        rep.finish(extra);
        return 0;
    }
    std::fprintf(stderr, "usage: c06_fits replay <schema> <vectors> [cpu_budget_ms]\n");
    return 3;
}
