// C12 conformance harness: sbeppc-generated group classes of all 16 dimension
// encodings (blockLength type x numInGroup type) against the GroupIter.tla
// vectors (replay mode) and random iterator walks (record mode).
//
// usage: c12_groups replay <vectors.ndjson>
//        c12_groups record <seed> <episodes> <len> <out.ndjson> <bw> <nw>
//
// compile with -DC12_NS=c12le|c12be -DC12_BE=0|1 and either
//   -DSBEPP_ENABLE_ASSERTS_WITH_HANDLER  ("checked": views are exactly as large
//        as the group; a handler call on a legal expression is a MISMATCH), or
//   -DSBEPP_DISABLE_ASSERTS              ("unchecked": also runs the "huge"
//        vectors whose headers describe groups far larger than the buffer;
//        those only form ADDRESSES, nothing is dereferenced.  Pointer
//        arithmetic beyond the allocation is formally undefined; the harness
//        relies on the flat address space of the host and compares
//        uintptr_t differences.)
//
// Expected values are fields of the vectors (computed by TLC); nothing here
// computes an expectation.
#include "vh.hpp"

#include <algorithm>
#include <csetjmp>
#include <csignal>
#include <unistd.h>
#include <iterator>
#include <type_traits>
#if defined(__has_include)
#    if __has_include(<version>)
#        include <version>
#    endif
#endif
#if defined(__cpp_lib_ranges) && defined(__cpp_concepts)
#    include <ranges>
#    define C12_HAS_RANGES 1
#endif

#define C12_STR2(x) #x
#define C12_STR(x) C12_STR2(x)
// clang-format off
#include C12_STR(C12_NS/C12_NS.hpp)
// clang-format on

using namespace vh;

#ifdef SBEPP_ENABLE_ASSERTS_WITH_HANDLER
static constexpr bool checked_build = true;
#else
static constexpr bool checked_build = false;
#endif

static report rep;
static std::uint64_t g_vectors = 0, g_nontrivial = 0;
static sigjmp_buf g_jb;
static const char* volatile g_assert_expr = nullptr;
static volatile long g_assert_line = 0;
// context of the call in flight (for the signature of an assertion / mismatch)
static const char* volatile g_op = "";
static volatile long long g_arg = 0;

namespace sbepp
{
[[noreturn]] void assertion_failed(
    char const* expr, char const*, char const*, long line)
{
    g_assert_expr = expr;
    g_assert_line = line;
    siglongjmp(g_jb, 1);
}
} // namespace sbepp

// a crash while executing a vector is an observation about the code under
// test, not a reason to lose the run: report it as a mismatch of that vector
static void on_crash(int sig)
{
    g_assert_line = sig;
    siglongjmp(g_jb, 2);
}

static void install_crash_handlers()
{
    struct sigaction sa;
    std::memset(&sa, 0, sizeof(sa));
    sa.sa_handler = on_crash;
    sigemptyset(&sa.sa_mask);
    sa.sa_flags = SA_NODEFER;
    sigaction(SIGSEGV, &sa, nullptr);
    sigaction(SIGBUS, &sa, nullptr);
    sigaction(SIGFPE, &sa, nullptr);
    sigaction(SIGALRM, &sa, nullptr); // watchdog: a vector that does not finish
}

static const char* prim(int w)
{
    return w == 1 ? "uint8" : w == 2 ? "uint16" : w == 4 ? "uint32" : "uint64";
}

static std::string pair_sig(int bw, int nw)
{
    return std::string("num=") + prim(nw) + "/bl=" + prim(bw);
}

static std::string sign_cls(long long n)
{
    return n < 0 ? "n<0" : n == 0 ? "n=0" : "n>0";
}

// ---- plain (non-template) forms of the vectors ----------------------------
enum op_t
{
    o_begin,
    o_end,
    o_add,
    o_radd,
    o_sub,
    o_add_assign,
    o_sub_assign,
    o_pre_inc,
    o_post_inc,
    o_pre_dec,
    o_post_dec,
    o_bad
};
static const char* const op_names[] = {
    "begin", "end", "add", "radd", "sub", "add_assign", "sub_assign",
    "pre_inc", "post_inc", "pre_dec", "post_dec", "?"};

static op_t op_of(const std::string& s)
{
    for(int k = 0; k < o_bad; k++)
    {
        if(s == op_names[k])
        {
            return static_cast<op_t>(k);
        }
    }
    return o_bad;
}

static bool has_arg(op_t o)
{
    return o >= o_add && o <= o_sub_assign;
}

struct step_t
{
    op_t op;
    long long n, i, a, ri, ra;
};

struct cmp_t
{
    bool eq, ne, lt, le, gt, ge;
    long long d, rd;
};

struct flat_vec
{
    int bw, nw;
    long long n, bl, len;
    bytes hdr;
    const json* raw;
};

static bytes wire(const json& h)
{
    return to_bytes(h[C12_BE ? "be" : "le"]);
}

// value of `w` little-endian digits as the unsigned type T
template<typename T>
static T from_digits(const json& d)
{
    std::uint64_t v = 0;
    int k = 0;
    for(const auto& x : d)
    {
        if(k < 8)
        {
            v |= static_cast<std::uint64_t>(x.get<int>()) << (8 * k);
        }
        k++;
    }
    return static_cast<T>(v);
}

static bytes digits_of_u64(std::uint64_t v, std::size_t w)
{
    bytes b(w);
    for(std::size_t k = 0; k < w && k < 8; k++)
    {
        b[k] = static_cast<std::uint8_t>(v >> (8 * k));
    }
    return b;
}

// a signed result, sign-extended to 9 little-endian bytes
static bytes signed9(long long d)
{
    bytes b = digits_of_u64(static_cast<std::uint64_t>(d), 9);
    b[8] = d < 0 ? 0xFF : 0;
    return b;
}

// ---- buffers ---------------------------------------------------------------
static constexpr std::size_t margin = 64;
static constexpr std::size_t msg_hdr = 8;

struct buffer
{
    std::vector<char> mem;
    std::size_t glen; // bytes of the group actually present

    // group image = `image`, preceded by the message header
    explicit buffer(const bytes& image, std::size_t room = 0)
        : mem(margin + msg_hdr + image.size() + room + margin), glen(image.size() + room)
    {
        for(std::size_t k = 0; k < mem.size(); k++)
        {
            mem[k] = static_cast<char>(0xA5 ^ (k * 29));
        }
        std::memcpy(mem.data() + margin + msg_hdr, image.data(), image.size());
    }

    char* msg()
    {
        return mem.data() + margin;
    }

    std::size_t msg_size() const
    {
        return msg_hdr + glen;
    }

    bytes group_bytes() const
    {
        const auto* p = reinterpret_cast<const std::uint8_t*>(mem.data() + margin + msg_hdr);
        return bytes(p, p + glen);
    }

    // everything outside the group image (margins + message header)
    bytes outside() const
    {
        bytes b(mem.size() - glen);
        std::memcpy(b.data(), mem.data(), margin + msg_hdr);
        std::memcpy(b.data() + margin + msg_hdr, mem.data() + margin + msg_hdr + glen, margin);
        return b;
    }
};

static bytes flat_image(const bytes& hdr, long long len)
{
    bytes img(hdr);
    for(long long k = static_cast<long long>(hdr.size()); k < len; k++)
    {
        img.push_back(static_cast<std::uint8_t>(17 + 3 * k));
    }
    return img;
}

template<typename E, typename G>
static long long off(const E& e, const G& g)
{
    return static_cast<long long>(
        reinterpret_cast<std::uintptr_t>(sbepp::addressof(e))
        - reinterpret_cast<std::uintptr_t>(sbepp::addressof(g)));
}

static constexpr long long wild = -7777777;
static long long tame(long long x) // an observed index / address offset
{
    return x >= 0 && x < (1 << 24) ? x : wild;
}
static long long tame_d(long long x) // an observed distance
{
    return x > -(1 << 24) && x < (1 << 24) ? x : wild;
}

// ---- flat groups -----------------------------------------------------------
template<typename Msg>
struct flat
{
    using G = decltype(std::declval<Msg>().g());
    using It = typename G::iterator;
    using D = typename G::difference_type;
    using S = typename G::size_type;

    static_assert(
        std::is_same<
            typename std::iterator_traits<It>::iterator_category,
            std::random_access_iterator_tag>::value,
        "flat group iterators are random access");
    static_assert(
        std::is_same<typename std::iterator_traits<It>::difference_type, D>::value, "");
#ifdef C12_HAS_RANGES
    static_assert(std::random_access_iterator<It>, "documented: satisfies std::random_access_iterator");
    static_assert(std::ranges::random_access_range<G> && std::ranges::sized_range<G>, "flat groups are random-access ranges");
#endif

    static Msg open(buffer& b)
    {
        Msg m{b.msg(), b.msg_size()};
        sbepp::fill_message_header(m);
        return m;
    }

    // checks an iterator against (index, address) of the vector; returns "" or
    // what differs
    static const char* check(const G& g, const It& it, long long i, long long a, long long n)
    {
        if(static_cast<long long>(it - g.begin()) != i)
        {
            return "idx";
        }
        if((it == g.end()) != (i == n) || (it != g.end()) != (i != n))
        {
            return "at_end";
        }
        if(i < n && off(*it, g) != a)
        {
            return "addr";
        }
        return nullptr;
    }

    static void it_vector(const flat_vec& fv, const char* kind)
    {
        const json& v = *fv.raw;
        buffer b(flat_image(fv.hdr, fv.len));
        const bytes before = b.group_bytes();
        Msg m = open(b);
        G g = m.g();
        const std::string ps = std::string(kind) + "/" + pair_sig(fv.bw, fv.nw);
        const std::string blc = fv.bl == 0 ? "bl=0" : "bl>0";
        if(off(g, m) != static_cast<long long>(msg_hdr))
        {
            rep.mismatch("it/group_start/" + ps, "group does not start after the message header", v);
            return;
        }
        It it{};
        It val{};
        for(const auto& js : v["chain"])
        {
            step_t s{op_of(js[0].get<std::string>()), js[1].get<long long>(), js[2].get<long long>(),
                     js[3].get<long long>(), js[4].get<long long>(), js[5].get<long long>()};
            const D dn = static_cast<D>(s.n);
            g_op = op_names[s.op];
            g_arg = s.n;
            switch(s.op)
            {
            case o_begin:
                it = g.begin();
                val = it;
                break;
            case o_end:
                it = g.end();
                val = it;
                break;
            case o_add:
                val = it + dn;
                it = val;
                break;
            case o_radd:
                val = dn + it;
                it = val;
                break;
            case o_sub:
                val = it - dn;
                it = val;
                break;
            case o_add_assign:
                val = (it += dn);
                break;
            case o_sub_assign:
                val = (it -= dn);
                break;
            case o_pre_inc:
                val = ++it;
                break;
            case o_post_inc:
                val = it++;
                break;
            case o_pre_dec:
                val = --it;
                break;
            case o_post_dec:
                val = it--;
                break;
            default:
                std::fprintf(stderr, "bad op\n");
                std::exit(3);
            }
            g_op = "check";
            const std::string cls = std::string(op_names[s.op]) + "/" + ps + "/"
                                    + (has_arg(s.op) ? sign_cls(s.n) : std::string("-")) + "/" + blc;
            if(const char* w = check(g, it, s.i, s.a, fv.n))
            {
                rep.mismatch(
                    "it/" + cls + "/" + w,
                    std::string("after ") + op_names[s.op] + "(" + std::to_string(s.n) + ") the iterator has "
                        + w + " != spec (index " + std::to_string(s.i) + ", address offset "
                        + std::to_string(s.a) + "); observed index "
                        + std::to_string(static_cast<long long>(it - g.begin())) + ", address offset "
                        + (s.i < fv.n ? std::to_string(off(*it, g)) : std::string("-")),
                    v);
                return;
            }
            if(const char* w = check(g, val, s.ri, s.ra, fv.n))
            {
                rep.mismatch(
                    "it/" + cls + "/value_" + w,
                    std::string("value of ") + op_names[s.op] + "(" + std::to_string(s.n)
                        + ") differs from spec in " + w,
                    v);
                return;
            }
            rep.ok(op_names[s.op]);
        }
        const long long i = v["chain"].back()[2].get<long long>();
        // *it, it->
        if(v["deref"].get<long long>() >= 0)
        {
            g_op = "deref";
            const long long e = v["deref"].get<long long>();
            if(off(*it, g) != e || off(*(it.operator->().operator->()), g) != e)
            {
                rep.mismatch("it/deref/" + ps + "/" + blc, "*it / it-> address differs from spec", v);
            }
            else
            {
                rep.ok("deref");
            }
        }
        // it[n]
        for(const auto& a : v["at"])
        {
            const long long n = a[0].get<long long>();
            g_op = "index";
            g_arg = n;
            const long long got = off(it[static_cast<D>(n)], g);
            if(got != a[1].get<long long>())
            {
                rep.mismatch(
                    "it/index/" + ps + "/" + sign_cls(n) + "/" + blc + "/addr",
                    "it[" + std::to_string(n) + "] at index " + std::to_string(i) + ": address offset "
                        + std::to_string(got) + ", spec " + std::to_string(a[1].get<long long>()),
                    v);
            }
            else
            {
                rep.ok("index");
            }
        }
        // comparisons and distances against begin() advanced j times by ++
        long long j = 0;
        It other = g.begin();
        for(const auto& c : v["cmp"])
        {
            g_op = "cmp";
            g_arg = j;
            const bool good = (it == other) == c[0].get<bool>() && (it != other) == c[1].get<bool>()
                              && (it < other) == c[2].get<bool>() && (it <= other) == c[3].get<bool>()
                              && (it > other) == c[4].get<bool>() && (it >= other) == c[5].get<bool>();
            if(!good)
            {
                rep.mismatch("it/cmp/" + ps + "/" + blc, "comparison with begin()+" + std::to_string(j) + " differs", v);
            }
            else
            {
                rep.ok("cmp");
            }
            if(static_cast<long long>(it - other) != c[6].get<long long>()
               || static_cast<long long>(other - it) != c[7].get<long long>()
               || static_cast<long long>(std::distance(other, it)) != c[6].get<long long>())
            {
                rep.mismatch("it/distance/" + ps + "/" + blc, "it - (begin()+" + std::to_string(j) + ") differs", v);
            }
            else
            {
                rep.ok("distance");
            }
            j++;
            if(j < static_cast<long long>(v["cmp"].size()))
            {
                g_op = "walk";
                ++other;
            }
        }
        if(b.group_bytes() != before)
        {
            rep.mismatch("it/writes/" + ps, "iterator operations changed the buffer", v);
        }
    }

    static void grp_vector(const flat_vec& fv, const char* kind)
    {
        const json& v = *fv.raw;
        buffer b(flat_image(fv.hdr, fv.len));
        const bytes before = b.group_bytes();
        Msg m = open(b);
        G g = m.g();
        const std::string ps = std::string(kind) + "/" + pair_sig(fv.bw, fv.nw);
        const std::string blc = fv.bl == 0 ? "bl=0" : "bl>0";
        auto expect = [&](bool good, const char* what, const std::string& desc)
        {
            if(good)
            {
                rep.ok(what);
            }
            else
            {
                rep.mismatch(std::string("grp/") + what + "/" + ps + "/" + blc, desc, v);
            }
        };
        g_op = "size";
        expect(raw_of<S>(g.size()) == to_bytes(v["size"]), "size", "size() differs from numInGroup");
        expect(raw_of<S>(g.sbe_size().value()) == to_bytes(v["size"]), "size", "sbe_size() differs");
        g_op = "empty";
        expect(g.empty() == v["empty"].get<bool>(), "empty", "empty() differs");
        long long k = 0;
        for(const auto& a : v["at"])
        {
            g_op = "at";
            g_arg = k;
            const long long got = off(g[static_cast<S>(k)], g);
            expect(got == a.get<long long>(), "at",
                   "g[" + std::to_string(k) + "] address offset " + std::to_string(got) + ", spec "
                       + std::to_string(a.get<long long>()));
            k++;
        }
        if(v["front"].get<long long>() >= 0)
        {
            g_op = "front";
            expect(off(g.front(), g) == v["front"].get<long long>(), "front", "front() address differs");
            g_op = "back";
            expect(off(g.back(), g) == v["back"].get<long long>(), "back",
                   "back() address offset " + std::to_string(off(g.back(), g)) + ", spec "
                       + std::to_string(v["back"].get<long long>()));
        }
        {
            g_op = "iterate";
            std::vector<long long> seen;
            for(const auto e : g)
            {
                seen.push_back(off(e, g));
            }
            std::vector<long long> seen2;
            for(auto it = g.begin(); it != g.end(); it++)
            {
                seen2.push_back(off(*it, g));
            }
            std::vector<long long> want;
            for(const auto& a : v["iter"])
            {
                want.push_back(a.get<long long>());
            }
            expect(seen == want && seen2 == want, "iterate", "range-for over the group visits other addresses");
        }
        g_op = "begin_plus_size";
        expect((g.begin() + static_cast<D>(g.size()) == g.end()) == v["bpse"].get<bool>(), "begin_plus_size",
               "begin() + size() == end() differs");
        g_op = "distance";
        expect(static_cast<long long>(g.end() - g.begin()) == v["dist"].get<long long>()
                   && static_cast<long long>(std::distance(g.begin(), g.end())) == v["dist"].get<long long>(),
               "distance", "end() - begin() differs from the number of entries");
        expect(b.group_bytes() == before, "pure", "read-only calls changed the buffer");
        // resize / clear: only numInGroup changes
        for(const auto& r : v["resize"])
        {
            buffer b2(flat_image(fv.hdr, fv.len));
            Msg m2 = open(b2);
            G g2 = m2.g();
            const bytes out_before = b2.outside();
            g_op = "resize";
            g2.resize(from_digits<S>(r["d"]));
            bytes want = flat_image(wire(r["hdr"]), fv.len);
            expect(b2.group_bytes() == want && b2.outside() == out_before, "resize",
                   "resize changed something else than numInGroup (or not numInGroup)");
            expect(raw_of<S>(g2.size()) == to_bytes(r["d"]), "resize_size", "size() after resize differs");
        }
        {
            buffer b2(flat_image(fv.hdr, fv.len));
            Msg m2 = open(b2);
            G g2 = m2.g();
            const bytes out_before = b2.outside();
            g_op = "clear";
            g2.clear();
            expect(b2.group_bytes() == flat_image(wire(v["clear"]), fv.len) && b2.outside() == out_before
                       && g2.empty() && g2.begin() == g2.end(),
                   "clear", "clear changed something else than numInGroup (or not numInGroup)");
        }
    }

#ifndef SBEPP_ENABLE_ASSERTS_WITH_HANDLER
    // headers at the limits of their types: addresses only, nothing is read
    // beyond the header
    static void huge_vector(const json& v, const char* kind)
    {
        const int bw = v["bw"].get<int>(), nw = v["nw"].get<int>();
        const bytes hdr = wire(v["hdr"]);
        buffer b(hdr, 4096);
        const bytes before = b.group_bytes();
        Msg m = open(b);
        G g = m.g();
        const std::string cfg = std::string(kind) + "/" + pair_sig(bw, nw);
        const std::string hcls = v["ncls"].get<std::string>() + "/" + v["bcls"].get<std::string>() + "/"
                                 + v["pcls"].get<std::string>();
        // signature: huge/<expression>/<f|z>/<pair>/<class of the case>/<what differs>
        auto expect3 = [&](bool good, const std::string& what, const std::string& cls, const std::string& desc)
        {
            if(good)
            {
                rep.ok("huge_" + what.substr(0, what.find('/')));
            }
            else
            {
                const std::size_t sl = what.find('/');
                const std::string op = what.substr(0, sl), w = sl == std::string::npos ? "value" : what.substr(sl + 1);
                rep.mismatch("huge/" + op + "/" + cfg + "/" + cls + "/" + w, desc, v);
            }
        };
        auto expect = [&](bool good, const std::string& what, const std::string& desc)
        {
            expect3(good, what, hcls, desc);
        };
        expect(raw_of<S>(g.size()) == to_bytes(v["size"]), "size", "size() differs from numInGroup");
        expect(g.empty() == v["empty"].get<bool>(), "empty", "empty() differs");
        if(!v["dist"].empty())
        {
            const long long d = static_cast<long long>(g.end() - g.begin());
            expect(signed9(d) == to_bytes(v["dist"]), "distance",
                   "end() - begin() = " + std::to_string(d) + ", spec (9 LE digits) " + hex(to_bytes(v["dist"])));
        }
        expect((g.begin() + static_cast<D>(g.size()) == g.end()) == v["bpse"].get<bool>(), "begin_plus_size",
               "begin() + size() == end() differs");
        expect((g.begin() < g.end()) == v["begin_lt_end"].get<bool>()
                   && (g.end() > g.begin()) == v["begin_lt_end"].get<bool>()
                   && (g.begin() >= g.end()) != v["begin_lt_end"].get<bool>(),
               "order", "begin() < end() differs");
        expect((g.begin() == g.end()) == v["begin_eq_end"].get<bool>()
                   && (g.begin() != g.end()) != v["begin_eq_end"].get<bool>(),
               "equal", "begin() == end() differs");
        for(const auto& e : v["exprs"])
        {
            const std::string name = e["e"].get<std::string>();
            It it{};
            bool is_it = true;
            std::uintptr_t addr = 0;
            const auto base = reinterpret_cast<std::uintptr_t>(sbepp::addressof(g));
            auto ent = [&](const typename G::value_type& x)
            {
                is_it = false;
                addr = reinterpret_cast<std::uintptr_t>(sbepp::addressof(x)) - base;
            };
            const S sz = g.size();
            if(name == "begin")
                it = g.begin();
            else if(name == "end")
                it = g.end();
            else if(name == "front")
                ent(g.front());
            else if(name == "back")
                ent(g.back());
            else if(name == "begin_p1")
                it = g.begin() + static_cast<D>(1);
            else if(name == "begin_p2")
                it = g.begin() + static_cast<D>(2);
            else if(name == "begin_p2_m1")
                it = (g.begin() + static_cast<D>(2)) - static_cast<D>(1);
            else if(name == "begin_idx1")
                ent(g.begin()[static_cast<D>(1)]);
            else if(name == "at1")
                ent(g[static_cast<S>(1)]);
            else if(name == "pre_inc_begin")
            {
                it = g.begin();
                ++it;
            }
            else if(name == "end_m1")
                it = g.end() - static_cast<D>(1);
            else if(name == "end_m2_p1")
                it = (g.end() - static_cast<D>(2)) + static_cast<D>(1);
            else if(name == "pre_dec_end")
            {
                it = g.end();
                --it;
            }
            else if(name == "end_idx_m1")
                ent(g.end()[static_cast<D>(-1)]);
            else if(name == "end_m_size")
                it = g.end() - static_cast<D>(sz);
            else if(name == "at_size_m1")
                ent(g[static_cast<S>(sz - 1)]);
            else if(name == "begin_p_size_m1")
                it = g.begin() + static_cast<D>(static_cast<S>(sz - 1));
            else if(name == "begin_p_size")
                it = g.begin() + static_cast<D>(sz);
            else
            {
                std::fprintf(stderr, "unknown expr %s\n", name.c_str());
                std::exit(3);
            }
            if(is_it)
            {
                expect3((it == g.begin()) == e["is_begin"].get<bool>() && (it == g.end()) == e["is_end"].get<bool>(),
                        name + "/position", e["cls"].get<std::string>(),
                        name + ": position relative to begin()/end() differs");
                if(e["deref"].get<bool>())
                {
                    addr = reinterpret_cast<std::uintptr_t>(sbepp::addressof(*it)) - base;
                }
            }
            if(e["deref"].get<bool>() && !e["addr"].empty())
            {
                const bytes got = digits_of_u64(addr, 8);
                expect3(got == to_bytes(e["addr"]), name + "/addr", e["cls"].get<std::string>(),
                       name + ": entry address offset (LE digits) " + hex(got) + ", spec " + hex(to_bytes(e["addr"])));
            }
        }
        for(const auto& a : v["at"])
        {
            if(a["addr"].empty())
            {
                continue;
            }
            const auto base = reinterpret_cast<std::uintptr_t>(sbepp::addressof(g));
            const S k = from_digits<S>(a["kd"]);
            const bytes got = digits_of_u64(reinterpret_cast<std::uintptr_t>(sbepp::addressof(g[k])) - base, 8);
            expect3(got == to_bytes(a["addr"]), "at/addr", a["cls"].get<std::string>(),
                   "g[k], k (LE digits) " + hex(to_bytes(a["kd"])) + ": entry address offset " + hex(got) + ", spec "
                       + hex(to_bytes(a["addr"])));
        }
        expect(b.group_bytes() == before, "pure", "read-only calls changed the buffer");
        for(const auto& r : v["resize"])
        {
            buffer b2(hdr, 64);
            const bytes tail_before = b2.group_bytes();
            Msg m2 = open(b2);
            G g2 = m2.g();
            const bytes out_before = b2.outside();
            g2.resize(from_digits<S>(r["d"]));
            bytes want = tail_before;
            const bytes nh = wire(r["hdr"]);
            std::copy(nh.begin(), nh.end(), want.begin());
            expect(b2.group_bytes() == want && b2.outside() == out_before, "resize",
                   "resize changed something else than numInGroup (or not numInGroup)");
            expect(raw_of<S>(g2.size()) == to_bytes(r["d"]), "resize_size", "size() after resize differs");
        }
        {
            buffer b2(hdr, 64);
            bytes want = b2.group_bytes();
            Msg m2 = open(b2);
            G g2 = m2.g();
            const bytes out_before = b2.outside();
            g2.clear();
            const bytes nh = wire(v["clear"]);
            std::copy(nh.begin(), nh.end(), want.begin());
            expect(b2.group_bytes() == want && b2.outside() == out_before && g2.empty(), "clear",
                   "clear changed something else than numInGroup (or not numInGroup)");
        }
    }
#endif

    // ---- record mode: a random walk, logged for GroupIterTrace -----------
    static void record(rng& r, int len, std::ostream& out, int bw, int nw, const char* kind)
    {
        const long long n = static_cast<long long>(r.below(4) == 0 ? r.below(3) : r.below(13));
        const long long bl = static_cast<long long>(r.below(5) == 0 ? 0 : r.below(10));
        bytes hdr = digits_of_u64(static_cast<std::uint64_t>(bl), bw);
        const bytes nd = digits_of_u64(static_cast<std::uint64_t>(n), nw);
        hdr.insert(hdr.end(), nd.begin(), nd.end());
        // the log carries the header as little-endian digits; the buffer has
        // it in wire order
        bytes whdr = hdr;
        if(C12_BE)
        {
            std::reverse(whdr.begin(), whdr.begin() + bw);
            std::reverse(whdr.begin() + bw, whdr.end());
        }
        buffer b(flat_image(whdr, static_cast<long long>(hdr.size()) + n * bl));
        Msg m = open(b);
        G g = m.g();
        out << json({{"e", "Reset"}, {"bw", bw}, {"nw", nw}, {"kind", kind}, {"n", n}, {"bl", bl},
                     {"hdr", from_bytes(hdr)}})
                   .dump()
            << "\n";
        // TLC reads JSON numbers as 32-bit integers: anything outside a small
        // range is logged as `wild` (a value no specification address equals);
        // -1 = not observable (end() is not dereferenced)
        auto idx = [&](const It& x) { return tame(static_cast<long long>(x - g.begin())); };
        auto adr = [&](const It& x) { return idx(x) >= 0 && idx(x) < n ? tame(off(*x, g)) : -1LL; };
        const bool from_begin = r.below(2) != 0;
        It it = from_begin ? g.begin() : g.end();
        out << json({{"e", "Start"}, {"which", from_begin ? "begin" : "end"}, {"i", idx(it)}, {"a", adr(it)}}).dump()
            << "\n";
        for(int k = 0; k < len; k++)
        {
            const long long i = idx(it);
            switch(r.below(10))
            {
            case 0:
            case 1:
            case 2:
            case 3:
            case 4:
            {
                // a move that stays inside [begin, end]
                const int which = static_cast<int>(o_add + r.below(9));
                const op_t op = static_cast<op_t>(which);
                long long t = static_cast<long long>(r.below(static_cast<std::uint64_t>(n) + 1)); // target index
                long long arg = 0;
                It val{};
                switch(op)
                {
                case o_add:
                    arg = t - i;
                    val = it + static_cast<D>(arg);
                    it = val;
                    break;
                case o_radd:
                    arg = t - i;
                    val = static_cast<D>(arg) + it;
                    it = val;
                    break;
                case o_sub:
                    arg = i - t;
                    val = it - static_cast<D>(arg);
                    it = val;
                    break;
                case o_add_assign:
                    arg = t - i;
                    val = (it += static_cast<D>(arg));
                    break;
                case o_sub_assign:
                    arg = i - t;
                    val = (it -= static_cast<D>(arg));
                    break;
                case o_pre_inc:
                    if(i == n)
                        continue;
                    val = ++it;
                    break;
                case o_post_inc:
                    if(i == n)
                        continue;
                    val = it++;
                    break;
                case o_pre_dec:
                    if(i == 0)
                        continue;
                    val = --it;
                    break;
                default:
                    if(i == 0)
                        continue;
                    val = it--;
                    break;
                }
                // raw: the untamed address offset, as text (for the report only)
                out << json({{"e", "Move"}, {"op", op_names[op]}, {"n", arg}, {"i", idx(it)}, {"a", adr(it)},
                             {"ri", idx(val)}, {"ra", adr(val)},
                             {"raw", adr(it) == -1 ? std::string("-") : std::to_string(off(*it, g))}})
                           .dump()
                    << "\n";
                break;
            }
            case 5:
            {
                if(n == 0)
                    continue;
                const long long t = static_cast<long long>(r.below(static_cast<std::uint64_t>(n)));
                out << json({{"e", "Index"}, {"n", t - i}, {"a", tame(off(it[static_cast<D>(t - i)], g))},
                             {"raw", std::to_string(off(it[static_cast<D>(t - i)], g))}})
                           .dump()
                    << "\n";
                break;
            }
            case 6:
            case 7:
            {
                const long long j = static_cast<long long>(r.below(static_cast<std::uint64_t>(n) + 1));
                It other = g.begin();
                for(long long q = 0; q < j; q++)
                    ++other;
                out << json({{"e", "Cmp"}, {"j", j}, {"eq", it == other}, {"ne", it != other}, {"lt", it < other},
                             {"le", it <= other}, {"gt", it > other}, {"ge", it >= other},
                             {"d", tame_d(static_cast<long long>(it - other))}, {"rd", tame_d(static_cast<long long>(other - it))}})
                           .dump()
                    << "\n";
                break;
            }
            case 8:
            {
                if(i >= n)
                    continue;
                out << json({{"e", "Deref"}, {"a", tame(off(*it, g))}}).dump() << "\n";
                break;
            }
            default:
            {
                switch(r.below(4))
                {
                case 0:
                    out << json({{"e", "Size"}, {"d", from_bytes(raw_of<S>(g.size()))}, {"empty", g.empty()}}).dump()
                        << "\n";
                    break;
                case 1:
                    if(n == 0)
                        continue;
                    {
                        const long long t = static_cast<long long>(r.below(static_cast<std::uint64_t>(n)));
                        out << json({{"e", "At"}, {"k", t}, {"a", tame(off(g[static_cast<S>(t)], g))}}).dump() << "\n";
                    }
                    break;
                case 2:
                    if(n == 0)
                        continue;
                    out << json({{"e", "Front"}, {"a", tame(off(g.front(), g))}}).dump() << "\n";
                    break;
                default:
                    if(n == 0)
                        continue;
                    out << json({{"e", "Back"}, {"a", tame(off(g.back(), g))}}).dump() << "\n";
                }
            }
            }
        }
        // an episode ends with resize/clear: the header afterwards (as digits)
        {
            const bool clr = r.below(3) == 0;
            const long long nn = clr ? 0 : static_cast<long long>(r.below(13));
            if(clr)
                g.clear();
            else
                g.resize(static_cast<S>(nn));
            bytes gb = b.group_bytes();
            bytes h(gb.begin(), gb.begin() + bw + nw);
            if(C12_BE)
            {
                std::reverse(h.begin(), h.begin() + bw);
                std::reverse(h.begin() + bw, h.end());
            }
            bytes rest(gb.begin() + bw + nw, gb.end());
            bytes rest0 = flat_image(whdr, static_cast<long long>(hdr.size()) + n * bl);
            rest0.erase(rest0.begin(), rest0.begin() + bw + nw);
            out << json({{"e", clr ? "Clear" : "Resize"}, {"d", from_bytes(digits_of_u64(static_cast<std::uint64_t>(nn), nw))},
                         {"hdr", from_bytes(h)}, {"entries_unchanged", rest == rest0},
                         {"size", from_bytes(raw_of<S>(g.size()))}})
                       .dump()
                << "\n";
        }
    }
};

// ---- nested groups ---------------------------------------------------------
template<typename Msg>
struct nested
{
    using G = decltype(std::declval<Msg>().g());
    using It = typename G::iterator;
    using S = typename G::size_type;

    static_assert(
        std::is_same<typename std::iterator_traits<It>::iterator_category, std::forward_iterator_tag>::value,
        "nested group iterators are forward iterators");
#ifdef C12_HAS_RANGES
    static_assert(std::forward_iterator<It>, "documented: satisfies std::forward_iterator");
    static_assert(std::ranges::forward_range<G>, "nested groups are forward ranges");
#endif

    static void vector(const json& v)
    {
        const int bw = v["bw"].get<int>(), nw = v["nw"].get<int>();
        const bytes img = wire(v["mem"]);
        buffer b(img);
        Msg m{b.msg(), b.msg_size()};
        sbepp::fill_message_header(m);
        G g = m.g();
        const std::string ps = pair_sig(bw, nw);
        auto expect = [&](bool good, const char* what, const std::string& desc)
        {
            if(good)
            {
                rep.ok(std::string("nested_") + what);
            }
            else
            {
                rep.mismatch(std::string("nested/") + what + "/" + ps, desc, v);
            }
        };
        g_op = "size";
        expect(raw_of<S>(g.size()) == to_bytes(v["size"]), "size", "size() differs from numInGroup");
        expect(g.empty() == v["empty"].get<bool>(), "empty", "empty() differs");
        std::vector<long long> want;
        for(const auto& a : v["starts"])
        {
            want.push_back(a.get<long long>());
        }
        {
            g_op = "iterate";
            std::vector<long long> s1, s2, s3;
            for(auto it = g.begin(); it != g.end(); ++it)
            {
                s1.push_back(off(*it, g));
            }
            for(auto it = g.begin(); !(it == g.end()); it++)
            {
                s2.push_back(off(*(it.operator->().operator->()), g));
            }
            for(const auto e : g)
            {
                s3.push_back(off(e, g));
            }
            std::string got;
            for(auto x : s1)
            {
                got += std::to_string(x) + " ";
            }
            expect(s1 == want, "starts", "entry start offsets by ++it: " + got + "differ from spec");
            expect(s2 == want, "starts_postinc", "entry start offsets by it++ differ from spec");
            expect(s3 == want, "starts_rangefor", "entry start offsets by range-for differ from spec");
        }
        {
            g_op = "post_inc_value";
            // it++ returns the old position
            bool good = true;
            auto it = g.begin();
            for(std::size_t k = 0; k < want.size(); k++)
            {
                auto old = it++;
                good = good && off(*old, g) == want[k] && old != it
                       && static_cast<std::size_t>(std::distance(g.begin(), old)) == k;
            }
            good = good && it == g.end();
            expect(good, "post_inc_value", "it++ does not return the previous position");
        }
        g_op = "distance";
        expect(static_cast<std::size_t>(std::distance(g.begin(), g.end())) == want.size(), "distance",
               "distance(begin(), end()) differs from numInGroup");
        if(!want.empty())
        {
            g_op = "front";
            expect(off(g.front(), g) == want[0], "front", "front() address differs");
        }
        g_op = "total";
        expect(static_cast<long long>(sbepp::size_bytes(g)) == v["total"].get<long long>(), "total",
               "end of the last entry (size_bytes of the group) differs");
        expect(b.group_bytes() == img, "pure", "read-only calls changed the buffer");
        // resize/clear: only numInGroup changes
        for(const auto& d : v["resize"])
        {
            buffer b2(img);
            Msg m2{b2.msg(), b2.msg_size()};
            sbepp::fill_message_header(m2);
            G g2 = m2.g();
            const bytes out_before = b2.outside();
            g_op = "resize";
            g2.resize(from_digits<S>(d));
            bytes wantb = img;
            bytes nd = to_bytes(d);
            if(C12_BE)
            {
                std::reverse(nd.begin(), nd.end());
            }
            std::copy(nd.begin(), nd.end(), wantb.begin() + bw);
            expect(b2.group_bytes() == wantb && b2.outside() == out_before, "resize",
                   "resize changed something else than numInGroup (or not numInGroup)");
            expect(raw_of<S>(g2.size()) == to_bytes(d), "resize_size", "size() after resize differs");
        }
        {
            buffer b2(img);
            Msg m2{b2.msg(), b2.msg_size()};
            sbepp::fill_message_header(m2);
            G g2 = m2.g();
            g_op = "clear";
            g2.clear();
            bytes wantb = img;
            std::fill(wantb.begin() + bw, wantb.begin() + bw + nw, 0);
            expect(b2.group_bytes() == wantb && g2.empty() && g2.begin() == g2.end(), "clear",
                   "clear changed something else than numInGroup (or not numInGroup)");
        }
    }

    // record: walk a random nested group forward
    static void record(rng& r, std::ostream& out, int bw, int nw)
    {
        const long long n = static_cast<long long>(r.below(5));
        const long long bl = 2 + static_cast<long long>(r.below(5));
        bytes img, wimg; // logged (little-endian digits) and wire image
        auto put = [&](long long val, int w)
        {
            bytes t = digits_of_u64(static_cast<std::uint64_t>(val), static_cast<std::size_t>(w));
            img.insert(img.end(), t.begin(), t.end());
            if(C12_BE)
                std::reverse(t.begin(), t.end());
            wimg.insert(wimg.end(), t.begin(), t.end());
        };
        auto fill = [&](long long cnt)
        {
            for(long long q = 0; q < cnt; q++)
            {
                img.push_back(static_cast<std::uint8_t>(r.next()));
                wimg.push_back(img.back());
            }
        };
        put(bl, bw);
        put(n, nw);
        for(long long k = 0; k < n; k++)
        {
            const long long sn = static_cast<long long>(r.below(4)), sbl = 1 + static_cast<long long>(r.below(4)),
                            dl = static_cast<long long>(r.below(6));
            fill(bl);
            put(sbl, bw);
            put(sn, nw);
            fill(sn * sbl);
            put(dl, 1);
            fill(dl);
        }
        buffer b(wimg);
        Msg m{b.msg(), b.msg_size()};
        sbepp::fill_message_header(m);
        G g = m.g();
        out << json({{"e", "NReset"}, {"mem", from_bytes(img)}}).dump() << "\n";
        auto it = g.begin();
        out << json({{"e", "NBegin"}, {"a", it != g.end() ? tame(off(*it, g)) : -1LL}, {"at_end", it == g.end()}}).dump()
            << "\n";
        while(it != g.end())
        {
            if(r.below(2))
                ++it;
            else
                it++;
            out << json({{"e", "NInc"}, {"a", it != g.end() ? tame(off(*it, g)) : -1LL}, {"at_end", it == g.end()}}).dump()
                << "\n";
        }
    }
};

// ---- dispatch over the 16 dimension encodings ------------------------------
#define C12_PAIRS(X)                                                      \
    X(1, 1) X(1, 2) X(1, 4) X(1, 8) X(2, 1) X(2, 2) X(2, 4) X(2, 8) X(4, 1) \
        X(4, 2) X(4, 4) X(4, 8) X(8, 1) X(8, 2) X(8, 4) X(8, 8)

static void replay_vector(const json& v)
{
    const std::string k = v["k"].get<std::string>();
    const int bw = v["bw"].get<int>(), nw = v["nw"].get<int>();
    if(k == "it" || k == "grp")
    {
        flat_vec fv{bw, nw, v["n"].get<long long>(), v["bl"].get<long long>(), v["len"].get<long long>(),
                    wire(v["hdr"]), &v};
#define C12_FLAT(BB, NN)                                                 \
    if(bw == BB && nw == NN)                                             \
    {                                                                  \
        if(k == "it")                                                  \
        {                                                              \
            flat<C12_NS::messages::fB##BB##N##NN<char>>::it_vector(fv, "f"); \
            flat<C12_NS::messages::zB##BB##N##NN<char>>::it_vector(fv, "z"); \
        }                                                              \
        else                                                           \
        {                                                              \
            flat<C12_NS::messages::fB##BB##N##NN<char>>::grp_vector(fv, "f"); \
            flat<C12_NS::messages::zB##BB##N##NN<char>>::grp_vector(fv, "z"); \
        }                                                              \
    }
        C12_PAIRS(C12_FLAT)
    }
    else if(k == "huge")
    {
#ifndef SBEPP_ENABLE_ASSERTS_WITH_HANDLER
#    define C12_HUGE(BB, NN)                                           \
        if(bw == BB && nw == NN)                                       \
        {                                                            \
            flat<C12_NS::messages::fB##BB##N##NN<char>>::huge_vector(v, "f"); \
            flat<C12_NS::messages::zB##BB##N##NN<char>>::huge_vector(v, "z"); \
        }
        C12_PAIRS(C12_HUGE)
#endif
    }
    else if(k == "nested")
    {
#define C12_NESTED(BB, NN)                                         \
    if(bw == BB && nw == NN)                                       \
    {                                                            \
        nested<C12_NS::messages::nB##BB##N##NN<char>>::vector(v);  \
    }
        C12_PAIRS(C12_NESTED)
    }
}

int main(int argc, char** argv)
{
    install_crash_handlers();
    if(argc >= 3 && std::string(argv[1]) == "replay")
    {
        for(int a = 2; a < argc; a++)
        {
            for_each_line(
                argv[a],
                [](const json& v)
                {
                    g_vectors++;
                    if(v["k"] != "grp" && v["n_pos"].get<bool>() && (v["k"] != "it" || v["chain"].size() >= 2))
                    {
                        g_nontrivial++;
                    }
                    const int jr = sigsetjmp(g_jb, 1);
                    if(jr == 0)
                    {
                        alarm(60);
                        replay_vector(v);
                        alarm(0);
                    }
                    else if(jr == 1)
                    {
                        const std::string k = v["k"].get<std::string>();
                        rep.mismatch(
                            "assert/" + k + "/" + std::string(g_op) + "/"
                                + pair_sig(v["bw"].get<int>(), v["nw"].get<int>()),
                            std::string("assertion handler invoked on a legal in-bounds expression (")
                                + g_op + ", arg " + std::to_string(static_cast<long long>(g_arg))
                                + "): " + (g_assert_expr ? g_assert_expr : "?") + " at sbepp.hpp:"
                                + std::to_string(static_cast<long>(g_assert_line)),
                            v);
                    }
                    else
                    {
                        const std::string k = v["k"].get<std::string>();
                        rep.mismatch(
                            "crash/" + k + "/" + std::string(g_op) + "/"
                                + pair_sig(v["bw"].get<int>(), v["nw"].get<int>()),
                            std::string("signal ") + std::to_string(static_cast<long>(g_assert_line)) + " while executing "
                                + g_op + " (arg " + std::to_string(static_cast<long long>(g_arg)) + ")",
                            v);
                    }
                });
        }
        json extra;
        extra["checked"] = checked_build;
        extra["be"] = C12_BE != 0;
        extra["vectors"] = g_vectors;
        extra["nontrivial_vectors"] = g_nontrivial;
        rep.finish(extra);
        return 0;
    }
    if(argc >= 8 && std::string(argv[1]) == "record")
    {
        rng r(std::stoull(argv[2]));
        const int episodes = std::stoi(argv[3]);
        const int len = std::stoi(argv[4]);
        std::ofstream out(argv[5]);
        const int bw = std::stoi(argv[6]), nw = std::stoi(argv[7]);
        for(int e = 0; e < episodes; e++)
        {
            const int pick = static_cast<int>(r.below(5));
#define C12_REC(BB, NN)                                                                 \
    if(bw == BB && nw == NN)                                                            \
    {                                                                                 \
        if(pick == 0)                                                                 \
            nested<C12_NS::messages::nB##BB##N##NN<char>>::record(r, out, bw, nw);      \
        else if(pick < 3)                                                             \
            flat<C12_NS::messages::fB##BB##N##NN<char>>::record(r, len, out, bw, nw, "f"); \
        else                                                                          \
            flat<C12_NS::messages::zB##BB##N##NN<char>>::record(r, len, out, bw, nw, "z"); \
    }
            const int jr = sigsetjmp(g_jb, 1);
            if(jr == 0)
            {
                C12_PAIRS(C12_REC)
            }
            else
            {
                // no such event in the spec: the episode is rejected
                out << json({{"e", jr == 1 ? "Assert" : "Crash"}, {"expr", g_assert_expr ? g_assert_expr : "?"}}).dump()
                    << "\n";
            }
        }
        return 0;
    }
    std::fprintf(stderr, "usage\n");
    return 3;
}
