// C14 conformance harness: sbepp::detail::static_array_ref (instantiated
// directly and obtained from sbeppc-generated message/composite accessors)
// against the StaticArray.tla vectors (replay mode) and random call sequences
// logged for StaticArrayTrace.tla (record mode).
//
// usage: c14_arrays replay <vectors.ndjson>
//        c14_arrays record <seed> <episodes> <len> <out.ndjson> <N>
//
// A vector is one transition of the spec:
//   {"n":N, "pre":[GL, e0..e(N-1), GR], "act":{op,s,eos,count,value},
//    "post":[...], "ret":index | -1}
// The harness injects `pre` into real memory, performs the call through every
// applicable overload spelling and compares the whole memory (array, guards
// and, for generated messages, every other byte of the buffer) and the
// returned iterator offset with `post` / `ret`.  It computes no expectation.
//
// One binary per array length: -DC14_N=<0..4> (keeps each TU small enough to
// compile in parallel).
// Build variants: -DNDEBUG (no checks, the release configuration) and
// -DSBEPP_ENABLE_ASSERTS_WITH_HANDLER (all calls replayed here satisfy the
// documented preconditions, so the handler must never be invoked).
#include "vh.hpp"

#include <sbepp/sbepp.hpp>
#include <c14/c14.hpp>

#include <array>
#include <csetjmp>
#include <csignal>
#include <cstddef>
#include <deque>
#include <forward_list>
#include <initializer_list>
#include <iterator>
#include <list>
#include <memory>
#include <sstream>
#include <string>
#include <type_traits>
#include <unistd.h>
#if __cplusplus >= 201703L
#    include <string_view>
#endif
#if SBEPP_HAS_RANGES
#    include <ranges>
#    include <span>
#endif

using namespace vh;

#ifndef C14_N
#    error "compile with -DC14_N=<array length 0..4>"
#endif

// ---------------------------------------------------------------- handler --
static std::jmp_buf g_jb;
static volatile bool g_armed = false;
static volatile bool g_asserted = false;
static volatile long g_ret = -2;
static char g_expr[200];

#ifdef SBEPP_ENABLE_ASSERTS_WITH_HANDLER
#    define C14_CHECKED 1
namespace sbepp
{
[[noreturn]] void assertion_failed(
    char const* expr, char const* function, char const* file, long line)
{
    std::snprintf(g_expr, sizeof(g_expr), "%s in %s (line %ld)", expr, function, line);
    (void)file;
    if(g_armed)
    {
        g_armed = false;
        g_asserted = true;
        std::longjmp(g_jb, 1);
    }
    std::fprintf(stderr, "assertion outside a replayed call: %s\n", g_expr);
    std::abort();
}
} // namespace sbepp
#else
#    define C14_CHECKED 0
#endif

static report rep;

// A replayed call that kills the process (all replayed calls are legal, so
// this is undefined behaviour in the code under test showing through) is
// reported like any other divergence: signature <sig>/crash, with the vector,
// subject and spelling that were being executed.
static char g_cur_vec[900], g_cur_sig[200], g_cur_subject[200], g_cur_spelling[200];

static void on_crash(int signo)
{
    static char out[2600];
    std::signal(signo, SIG_DFL);
    std::fflush(stdout);
    const int n = std::snprintf(
        out,
        sizeof(out),
        "MISMATCH {\"sig\":\"%s/crash\",\"desc\":\"%s %s: process killed by signal %d while executing this legal "
        "call\",\"case\":%s}\nSTAT {\"evaluations\":%llu,\"mismatches\":%llu,\"distinct\":%llu,\"crashed\":true}\n",
        g_cur_sig,
        g_cur_subject,
        g_cur_spelling,
        signo,
        g_cur_vec[0] ? g_cur_vec : "null",
        static_cast<unsigned long long>(rep.evaluations + 1),
        static_cast<unsigned long long>(rep.mismatches + 1),
        static_cast<unsigned long long>(rep.distinct.size()));
    if(n > 0)
    {
        const ssize_t w = write(1, out, static_cast<std::size_t>(n) < sizeof(out) ? n : sizeof(out) - 1);
        (void)w;
    }
    _exit(0);
}

// Toolchain trait: the test strlen() and assign_string(const char*) perform to
// select their constant-evaluation code path, executed at run time.  It must
// be false; clang 14 with -std=c++2b and libstdc++ 12 ('if consteval' inside
// std::is_constant_evaluated) folds it to true.  Reported in STAT so that the
// driver can name the toolchain class in signatures.
static bool consteval_branch_at_runtime()
{
    if(sbepp::detail::is_constant_evaluated())
    {
        return true;
    }
    return false;
}

// ------------------------------------------------------------------ vector --
struct vec
{
    int n = 0;
    bytes pre, post;
    std::string op, eos;
    std::vector<int> s;
    int count = -1, value = -1;
    long ret = -1;
    const json* raw = nullptr;
};

static vec parse(const json& j)
{
    vec v;
    v.n = j["n"].get<int>();
    v.pre = to_bytes(j["pre"]);
    v.post = to_bytes(j["post"]);
    v.op = j["act"]["op"].get<std::string>();
    v.eos = j["act"]["eos"].get<std::string>();
    for(const auto& x : j["act"]["s"])
    {
        v.s.push_back(x.get<int>());
    }
    v.count = j["act"]["count"].get<int>();
    v.value = j["act"]["value"].get<int>();
    v.ret = j["ret"].get<long>();
    v.raw = &j;
    return v;
}

static sbepp::eos_null eos_of(const std::string& e)
{
    if(e == "none")
        return sbepp::eos_null::none;
    if(e == "single")
        return sbepp::eos_null::single;
    if(e == "all")
        return sbepp::eos_null::all;
    std::fprintf(stderr, "bad eos '%s'\n", e.c_str());
    std::exit(3);
}

static const char* eos_name(sbepp::eos_null e)
{
    return e == sbepp::eos_null::none ? "none" : e == sbepp::eos_null::single ? "single" : "all";
}

// ---------------------------------------------------------------- subjects --
template<typename T>
struct tname;
#define TNAME(T)                \
    template<>                  \
    struct tname<T>             \
    {                           \
        static const char* get() \
        {                       \
            return #T;          \
        }                       \
    };
TNAME(char)
TNAME(unsigned char)
TNAME(signed char)
#if __cplusplus >= 201703L
TNAME(std::byte)
#endif

// static_array_ref instantiated directly over a strip of N + 2 bytes
template<typename Byte, typename Value, std::size_t NN>
struct direct
{
    using byte_t = Byte;
    using array_t = sbepp::detail::static_array_ref<Byte, Value, NN, void>;
    enum : std::size_t
    {
        n = NN
    };
    static std::string name()
    {
        return std::string("static_array_ref<") + tname<Byte>::get() + ","
               + tname<Value>::get() + "," + std::to_string(NN) + ">";
    }
    bytes mem;
    std::size_t strip = 0;
    void inject(const bytes& pre)
    {
        mem = pre;
    }
    array_t array()
    {
        return array_t{reinterpret_cast<Byte*>(mem.data()) + 1, NN};
    }
    bytes expected(const bytes& post) const
    {
        return post;
    }
};

// array view returned by a generated accessor of message c14::m; the location
// of the array inside the message buffer is taken from the view itself
// (sbepp::addressof), never from schema arithmetic
template<typename Byte, typename Access>
struct generated
{
    using byte_t = Byte;
    using msg_t = c14::messages::m<Byte>;
    using array_t = decltype(Access::get(std::declval<msg_t>()));
    enum : std::size_t
    {
        n = array_t::size()
    };
    static std::string name()
    {
        return std::string("m<") + tname<Byte>::get() + ">" + Access::path();
    }
    bytes mem, bg;
    std::size_t strip = 0;
    array_t array()
    {
        msg_t m{reinterpret_cast<Byte*>(mem.data()), mem.size()};
        return Access::get(m);
    }
    void inject(const bytes& pre)
    {
        mem.assign(96, 0);
        for(std::size_t i = 0; i < mem.size(); i++)
        {
            mem[i] = static_cast<std::uint8_t>(0xA5u ^ i);
        }
        array_t a = array();
        const std::ptrdiff_t at =
            reinterpret_cast<const std::uint8_t*>(sbepp::addressof(a)) - mem.data();
        if(at < 1 || static_cast<std::size_t>(at) + n + 1 > mem.size())
        {
            std::fprintf(stderr, "%s: array at offset %td does not fit the harness buffer\n", name().c_str(), at);
            std::exit(3);
        }
        strip = static_cast<std::size_t>(at) - 1;
        bg = mem;
        std::copy(pre.begin(), pre.end(), mem.begin() + strip);
    }
    bytes expected(const bytes& post) const
    {
        bytes e = bg;
        std::copy(post.begin(), post.end(), e.begin() + strip);
        return e;
    }
};

#define ACCESS(NAME, EXPR, PATH)                       \
    struct NAME                                        \
    {                                                  \
        template<typename M>                           \
        static auto get(M m) -> decltype(m EXPR)       \
        {                                              \
            return m EXPR;                             \
        }                                              \
        static const char* path()                      \
        {                                              \
            return PATH;                               \
        }                                              \
    };
ACCESS(acc_fc0, .fc0(), ".fc0()")
ACCESS(acc_fc2, .fc2(), ".fc2()")
ACCESS(acc_fc3, .fc3(), ".fc3()")
ACCESS(acc_fc4, .fc4(), ".fc4()")
ACCESS(acc_fu0, .fu0(), ".fu0()")
ACCESS(acc_fu2, .fu2(), ".fu2()")
ACCESS(acc_fu3, .fu3(), ".fu3()")
ACCESS(acc_fu4, .fu4(), ".fu4()")
ACCESS(acc_fi0, .fi0(), ".fi0()")
ACCESS(acc_fi2, .fi2(), ".fi2()")
ACCESS(acc_fi3, .fi3(), ".fi3()")
ACCESS(acc_fi4, .fi4(), ".fi4()")
ACCESS(acc_cc3, .fcomp().cc3(), ".fcomp().cc3()")
ACCESS(acc_cu2, .fcomp().cu2(), ".fcomp().cu2()")
ACCESS(acc_cc0, .fcomp().cc0(), ".fcomp().cc0()")
ACCESS(acc_ci4, .fcomp().ci4(), ".fcomp().ci4()")
ACCESS(acc_rc2, .fcomp().rc2(), ".fcomp().rc2()")

// single-pass range: the weakest thing the range / iterator-pair overloads
// are documented to accept
template<typename V>
struct input_range
{
    const std::vector<V>* v;
    struct iterator
    {
        using iterator_category = std::input_iterator_tag;
        using value_type = V;
        using difference_type = std::ptrdiff_t;
        using pointer = const V*;
        using reference = const V&;
        const std::vector<V>* v = nullptr;
        std::size_t i = 0;
        reference operator*() const
        {
            return (*v)[i];
        }
        iterator& operator++()
        {
            ++i;
            return *this;
        }
        iterator operator++(int)
        {
            iterator t = *this;
            ++i;
            return t;
        }
        bool operator==(const iterator& o) const
        {
            return i == o.i;
        }
        bool operator!=(const iterator& o) const
        {
            return i != o.i;
        }
    };
    iterator begin() const
    {
        iterator it;
        it.v = v;
        it.i = 0;
        return it;
    }
    iterator end() const
    {
        iterator it;
        it.v = v;
        it.i = v->size();
        return it;
    }
};

// ------------------------------------------------------------------ runner --
// Full = every overload spelling; otherwise one or two representative spellings
// per overload (the spelling matters with respect to the element type and the
// standard library code path, not to the byte type or the tag, so the complete
// set runs on two direct instantiations and the core set on every subject).
template<typename S, bool Full>
struct runner
{
    using full_t = std::integral_constant<bool, Full>;
    using A = typename S::array_t;
    using V = typename A::value_type;
    using CA = sbepp::detail::static_array_ref<const typename S::byte_t, V, S::n, typename A::tag>;
    static_assert(A::size() == S::n, "generated array view has the schema's length");

    S sj;
    const vec& v;
    std::string sig;
    void publish()
    {
        std::snprintf(g_cur_sig, sizeof(g_cur_sig), "%s", sig.c_str());
        std::snprintf(g_cur_subject, sizeof(g_cur_subject), "%s", S::name().c_str());
    }
    std::vector<V> in;   // the input content as array elements
    std::string chars;   // the same as chars

    explicit runner(const vec& vv) : v(vv)
    {
        sig = v.op + (v.eos.empty() ? "" : "/eos=" + v.eos) + "/N=" + std::to_string(v.n);
        if(v.op == "strlen" || v.op == "strlen_r")
        {
            // argument class (a property of the input): does the array hold a NUL?
            bool nul = false;
            for(int i = 1; i <= v.n; i++)
            {
                nul = nul || v.pre[i] == 0;
            }
            sig += nul ? "/content=has-nul" : "/content=no-nul";
        }
        for(int x : v.s)
        {
            in.push_back(static_cast<V>(x));
            chars.push_back(static_cast<char>(x));
        }
    }

    void judge(const std::string& spelling)
    {
        const bytes exp = sj.expected(v.post);
        if(!g_asserted && sj.mem == exp && g_ret == v.ret)
        {
            rep.ok(v.op);
            return;
        }
        json cs = *v.raw;
        cs["subject"] = S::name();
        cs["spelling"] = spelling;
        const bytes got(sj.mem.begin() + sj.strip, sj.mem.begin() + sj.strip + S::n + 2);
        bytes rest_got = sj.mem, rest_exp = exp;
        for(std::size_t i = 0; i < S::n + 2; i++)
        {
            rest_got[sj.strip + i] = rest_exp[sj.strip + i] = 0;
        }
        cs["got_mem"] = from_bytes(got);
        cs["got_ret"] = static_cast<long>(g_ret);
        cs["outside_strip_changed"] = rest_got != rest_exp;
        if(g_asserted)
        {
            cs["assertion"] = std::string(g_expr);
            rep.mismatch(
                sig + "/spurious-assert",
                S::name() + " " + spelling + ": assertion handler invoked (" + g_expr
                    + ") although the documented preconditions hold",
                cs);
            return;
        }
        rep.mismatch(
            sig,
            S::name() + " " + spelling + " on [" + hex(v.pre) + "] with content [" + hex(bytes(chars.begin(), chars.end()))
                + "] count=" + std::to_string(v.count) + " value=" + std::to_string(v.value) + " gave [" + hex(got)
                + "] ret " + std::to_string(static_cast<long>(g_ret)) + ", spec [" + hex(v.post) + "] ret "
                + std::to_string(v.ret) + (rest_got != rest_exp ? " (bytes outside guards changed too)" : ""),
            cs);
    }

    template<typename F>
    void attempt(const std::string& spelling, F f)
    {
        std::snprintf(g_cur_spelling, sizeof(g_cur_spelling), "%s", spelling.c_str());
        sj.inject(v.pre);
        A a = sj.array();
        g_ret = -2;
        g_asserted = false;
#if C14_CHECKED
        g_armed = true;
        if(setjmp(g_jb) == 0)
        {
            g_ret = f(a);
        }
        g_armed = false;
#else
        g_ret = f(a);
#endif
        judge(spelling);
    }

    // ---- assign_string(const char*, eos) ---------------------------------
    template<std::size_t K>
    void literal_like(sbepp::eos_null mode)
    {
        char tmp[K + 1];
        for(std::size_t i = 0; i < K; i++)
        {
            tmp[i] = chars[i];
        }
        tmp[K] = '\0';
        // same type and value category as a string literal of K characters
        const char(&lit)[K + 1] = tmp;
        attempt(
            "assign_string(const char(&)[len+1], eos)",
            [&](A a) -> long { return a.assign_string(lit, mode) - a.begin(); });
    }

    void op_assign_string_ptr()
    {
        const sbepp::eos_null mode = eos_of(v.eos);
        attempt(
            "assign_string(std::string::c_str(), eos)",
            [&](A a) -> long { return a.assign_string(chars.c_str(), mode) - a.begin(); });
        if(mode == sbepp::eos_null::all)
        {
            attempt("assign_string(std::string::c_str()) [default eos]", [&](A a) -> long {
                return a.assign_string(chars.c_str()) - a.begin();
            });
        }
        ptr_more(mode, full_t{});
    }

    void ptr_more(sbepp::eos_null, std::false_type)
    {
    }

    void ptr_more(sbepp::eos_null mode, std::true_type)
    {
        {
            // exactly strlen + 1 bytes of storage
            std::unique_ptr<char[]> p(new char[chars.size() + 1]);
            std::copy(chars.begin(), chars.end(), p.get());
            p[chars.size()] = '\0';
            const char* cp = p.get();
            attempt(
                "assign_string(const char*, eos)",
                [&](A a) -> long { return a.assign_string(cp, mode) - a.begin(); });
            char* mp = p.get();
            attempt("assign_string(char*, eos)", [&](A a) -> long { return a.assign_string(mp, mode) - a.begin(); });
            if(mode == sbepp::eos_null::all)
            {
                attempt(
                    "assign_string(const char*) [default eos]",
                    [&](A a) -> long { return a.assign_string(cp) - a.begin(); });
            }
        }
        switch(chars.size())
        {
        case 0:
            literal_like<0>(mode);
            break;
        case 1:
            literal_like<1>(mode);
            break;
        case 2:
            literal_like<2>(mode);
            break;
        case 3:
            literal_like<3>(mode);
            break;
        default:
            literal_like<4>(mode);
        }
    }

    // ---- range overloads ---------------------------------------------------
    struct call_assign_string
    {
        sbepp::eos_null mode;
        template<typename R>
        long operator()(A a, R&& r) const
        {
            return a.assign_string(std::forward<R>(r), mode) - a.begin();
        }
        std::string text(const char* r) const
        {
            return std::string("assign_string(") + r + ", " + eos_name(mode) + ")";
        }
    };
    struct call_assign_string_default
    {
        template<typename R>
        long operator()(A a, R&& r) const
        {
            return a.assign_string(std::forward<R>(r)) - a.begin();
        }
        std::string text(const char* r) const
        {
            return std::string("assign_string(") + r + ") [default eos]";
        }
    };
    struct call_assign_range
    {
        template<typename R>
        long operator()(A a, R&& r) const
        {
            return a.assign_range(std::forward<R>(r)) - a.begin();
        }
        std::string text(const char* r) const
        {
            return std::string("assign_range(") + r + ")";
        }
    };

    template<std::size_t K, typename C>
    void std_array_range(const C& call)
    {
        std::array<V, K> r{};
        for(std::size_t i = 0; i < K; i++)
        {
            r[i] = in[i];
        }
        attempt(call.text("std::array<V,len>&"), [&](A a) -> long { return call(a, r); });
        const std::array<V, K> cr = r;
        attempt(call.text("const std::array<V,len>&"), [&](A a) -> long { return call(a, cr); });
    }

    template<typename C>
    void range_spellings(const C& call)
    {
        {
            std::string r = chars;
            attempt(call.text("std::string&"), [&](A a) -> long { return call(a, r); });
            attempt(call.text("std::vector<V>&&"), [&](A a) -> long { return call(a, std::vector<V>(in)); });
        }
        range_more(call, full_t{});
    }

    template<typename C>
    void range_more(const C&, std::false_type)
    {
    }

    template<typename C>
    void range_more(const C& call, std::true_type)
    {
        {
            const std::string cr = chars;
            attempt(call.text("const std::string&"), [&](A a) -> long { return call(a, cr); });
            attempt(call.text("std::string&&"), [&](A a) -> long { return call(a, std::string(chars)); });
#if __cplusplus >= 201703L
            std::string_view sv{cr.data(), cr.size()};
            attempt(call.text("std::string_view"), [&](A a) -> long { return call(a, sv); });
#endif
        }
        {
            std::vector<V> r = in;
            attempt(call.text("std::vector<V>&"), [&](A a) -> long { return call(a, r); });
#if SBEPP_HAS_RANGES
            std::span<const V> sp{r.data(), r.size()};
            attempt(call.text("std::span<const V>"), [&](A a) -> long { return call(a, sp); });
#    if !defined(__clang__) || __clang_major__ >= 16
            // (clang 14/15 cannot compile libstdc++ 12's subrange at all)
            auto sub = std::ranges::subrange(r.begin(), r.end());
            attempt(call.text("std::ranges::subrange"), [&](A a) -> long { return call(a, sub); });
#    endif
#endif
        }
        {
            std::list<V> r(in.begin(), in.end());
            attempt(call.text("std::list<V>&"), [&](A a) -> long { return call(a, r); });
        }
        {
            std::forward_list<V> r(in.begin(), in.end());
            attempt(call.text("std::forward_list<V>&"), [&](A a) -> long { return call(a, r); });
        }
        {
            std::deque<V> r(in.begin(), in.end());
            attempt(call.text("const std::deque<V>&"), [&](A a) -> long {
                const std::deque<V>& cr = r;
                return call(a, cr);
            });
        }
        {
            input_range<V> r{&in};
            attempt(call.text("single-pass range"), [&](A a) -> long { return call(a, r); });
        }
        switch(in.size())
        {
        case 0:
            std_array_range<0>(call);
            break;
        case 1:
            std_array_range<1>(call);
            break;
        case 2:
            std_array_range<2>(call);
            break;
        case 3:
            std_array_range<3>(call);
            break;
        default:
            std_array_range<4>(call);
        }
    }

    template<std::size_t K>
    void c_array_range()
    {
        V arr[K];
        for(std::size_t i = 0; i < K; i++)
        {
            arr[i] = in[i];
        }
        attempt("assign_range(V(&)[len])", [&](A a) -> long { return a.assign_range(arr) - a.begin(); });
        const V(&carr)[K] = arr;
        attempt("assign_range(const V(&)[len])", [&](A a) -> long { return a.assign_range(carr) - a.begin(); });
    }

    void op_assign_string_range()
    {
        const sbepp::eos_null mode = eos_of(v.eos);
        range_spellings(call_assign_string{mode});
        if(mode == sbepp::eos_null::all)
        {
            range_spellings(call_assign_string_default{});
        }
    }

    void op_assign_range()
    {
        range_spellings(call_assign_range{});
        c_arrays(full_t{});
    }

    void c_arrays(std::false_type)
    {
    }

    void c_arrays(std::true_type)
    {
        // built-in arrays: only for assign_range, where there is a single
        // overload (for assign_string the documentation does not say whether
        // an array is a range or decays to a C string)
        switch(in.size())
        {
        case 1:
            c_array_range<1>();
            break;
        case 2:
            c_array_range<2>();
            break;
        case 3:
            c_array_range<3>();
            break;
        case 4:
            c_array_range<4>();
            break;
        default:
            break;
        }
    }

    // ---- assign(first, last) ----------------------------------------------
    void op_assign_iters()
    {
        {
            const V* f = in.data();
            const V* l = in.data() + in.size();
            attempt("assign(const V*, const V*)", [&](A a) -> long { return a.assign(f, l) - a.begin(); });
            std::list<V> r(in.begin(), in.end());
            attempt(
                "assign(std::list<V>::iterator x2)", [&](A a) -> long { return a.assign(r.begin(), r.end()) - a.begin(); });
        }
        iters_more(full_t{});
    }

    void iters_more(std::false_type)
    {
    }

    void iters_more(std::true_type)
    {
        {
            std::vector<V> m = in;
            V* mf = m.data();
            V* ml = m.data() + m.size();
            attempt("assign(V*, V*)", [&](A a) -> long { return a.assign(mf, ml) - a.begin(); });
            attempt(
                "assign(vector<V>::const_iterator x2)",
                [&](A a) -> long { return a.assign(in.cbegin(), in.cend()) - a.begin(); });
            std::vector<V> rev(in.rbegin(), in.rend());
            attempt(
                "assign(vector<V>::reverse_iterator x2)",
                [&](A a) -> long { return a.assign(rev.rbegin(), rev.rend()) - a.begin(); });
        }
        {
            std::string r = chars;
            attempt(
                "assign(std::string::iterator x2)", [&](A a) -> long { return a.assign(r.begin(), r.end()) - a.begin(); });
        }
        {
            std::deque<V> r(in.begin(), in.end());
            attempt(
                "assign(std::deque<V>::const_iterator x2)",
                [&](A a) -> long { return a.assign(r.cbegin(), r.cend()) - a.begin(); });
        }
        {
            input_range<V> r{&in};
            attempt(
                "assign(input iterator x2)", [&](A a) -> long { return a.assign(r.begin(), r.end()) - a.begin(); });
        }
        {
            std::istringstream ss(chars);
            attempt("assign(std::istreambuf_iterator<char> x2)", [&](A a) -> long {
                return a.assign(std::istreambuf_iterator<char>(ss), std::istreambuf_iterator<char>()) - a.begin();
            });
        }
    }

    // ---- assign(initializer_list) -------------------------------------------
    void op_assign_ilist()
    {
        const V x0 = in.size() > 0 ? in[0] : V{};
        const V x1 = in.size() > 1 ? in[1] : V{};
        const V x2 = in.size() > 2 ? in[2] : V{};
        const V x3 = in.size() > 3 ? in[3] : V{};
        switch(in.size())
        {
        case 0:
            attempt("assign(std::initializer_list<V>{})", [&](A a) -> long {
                return a.assign(std::initializer_list<V>{}) - a.begin();
            });
            attempt("assign({})", [&](A a) -> long { return a.assign({}) - a.begin(); });
            break;
        case 1:
            attempt("assign({x0})", [&](A a) -> long { return a.assign({x0}) - a.begin(); });
            break;
        case 2:
            attempt("assign({x0,x1})", [&](A a) -> long { return a.assign({x0, x1}) - a.begin(); });
            break;
        case 3:
            attempt("assign({x0,x1,x2})", [&](A a) -> long { return a.assign({x0, x1, x2}) - a.begin(); });
            break;
        default:
            attempt("assign({x0,x1,x2,x3})", [&](A a) -> long { return a.assign({x0, x1, x2, x3}) - a.begin(); });
            {
                std::initializer_list<V> il = {x0, x1, x2, x3};
                attempt("assign(std::initializer_list<V> lvalue)", [&](A a) -> long { return a.assign(il) - a.begin(); });
            }
        }
    }

    // ---- assign(count, value), fill(value) ----------------------------------
    void op_assign_count()
    {
        const V val = static_cast<V>(v.value);
        const std::size_t c = static_cast<std::size_t>(v.count);
        attempt("assign(std::size_t, V)", [&](A a) -> long { return a.assign(c, val) - a.begin(); });
        count_more(val, full_t{});
    }

    void count_more(V, std::false_type)
    {
    }

    void count_more(const V val, std::true_type)
    {
        const int ci = v.count;
        attempt("assign(int, V)", [&](A a) -> long { return a.assign(ci, val) - a.begin(); });
        const unsigned short cs = static_cast<unsigned short>(v.count);
        attempt("assign(unsigned short, V)", [&](A a) -> long { return a.assign(cs, val) - a.begin(); });
    }

    void op_fill()
    {
        const V val = static_cast<V>(v.value);
        attempt("fill(V)", [&](A a) -> long {
            a.fill(val);
            return -1; // returns nothing
        });
    }

    // ---- strlen / strlen_r ---------------------------------------------------
    // strlen() is only instantiable for Value = char (it passes data() to a
    // function taking const char*)
    void strlen_if(std::true_type)
    {
        attempt("strlen()", [&](A a) -> long { return static_cast<long>(a.strlen()); });
        attempt("strlen() on a const-byte view", [&](A a) -> long {
            const CA ca{a};
            return static_cast<long>(ca.strlen());
        });
    }
    void strlen_if(std::false_type)
    {
    }
    void op_strlen()
    {
        strlen_if(std::is_same<V, char>{});
    }
    void op_strlen_r()
    {
        attempt("strlen_r()", [&](A a) -> long { return static_cast<long>(a.strlen_r()); });
        attempt("strlen_r() on a const-byte view", [&](A a) -> long {
            const CA ca{a};
            return static_cast<long>(ca.strlen_r());
        });
    }

    void run()
    {
        publish();
        if(v.op == "assign_string_ptr")
            op_assign_string_ptr();
        else if(v.op == "assign_string_range")
            op_assign_string_range();
        else if(v.op == "assign_range")
            op_assign_range();
        else if(v.op == "assign_iters")
            op_assign_iters();
        else if(v.op == "assign_ilist")
            op_assign_ilist();
        else if(v.op == "assign_count")
            op_assign_count();
        else if(v.op == "fill")
            op_fill();
        else if(v.op == "strlen")
            op_strlen();
        else if(v.op == "strlen_r")
            op_strlen_r();
        else
        {
            std::fprintf(stderr, "unknown op %s\n", v.op.c_str());
            std::exit(3);
        }
    }
};

template<typename S, bool Full = false>
void run_subject(const vec& v)
{
    runner<S, Full> r(v);
    r.run();
}

template<std::size_t N>
void run_direct(const vec& v)
{
    run_subject<direct<char, char, N>, true>(v);
    run_subject<direct<unsigned char, unsigned char, N>, true>(v);
    run_subject<direct<unsigned char, char, N>>(v);
    run_subject<direct<char, unsigned char, N>>(v);
    run_subject<direct<unsigned char, signed char, N>>(v);
#if __cplusplus >= 201703L
    run_subject<direct<std::byte, char, N>>(v);
#endif
}

static void run_generated(const vec& v)
{
#if C14_N == 0
        run_subject<generated<char, acc_fc0>>(v);
        run_subject<generated<unsigned char, acc_fu0>>(v);
        run_subject<generated<char, acc_fi0>>(v);
        run_subject<generated<unsigned char, acc_cc0>>(v);
#elif C14_N == 2
        run_subject<generated<char, acc_fc2>>(v);
        run_subject<generated<unsigned char, acc_fc2>>(v);
        run_subject<generated<char, acc_fu2>>(v);
        run_subject<generated<unsigned char, acc_fi2>>(v);
        run_subject<generated<char, acc_cu2>>(v);
        run_subject<generated<unsigned char, acc_rc2>>(v);
#elif C14_N == 3
        run_subject<generated<char, acc_fc3>>(v);
        run_subject<generated<unsigned char, acc_fc3>>(v);
        run_subject<generated<unsigned char, acc_fu3>>(v);
        run_subject<generated<char, acc_fi3>>(v);
        run_subject<generated<char, acc_cc3>>(v);
#elif C14_N == 4
        run_subject<generated<char, acc_fc4>>(v);
        run_subject<generated<unsigned char, acc_fc4>>(v);
        run_subject<generated<char, acc_fu4>>(v);
        run_subject<generated<unsigned char, acc_fi4>>(v);
        run_subject<generated<char, acc_ci4>>(v);
#else
    (void)v; // length 1 is not an array in generated code
#endif
}

static void replay_one(const json& j)
{
    const vec v = parse(j);
    std::snprintf(g_cur_vec, sizeof(g_cur_vec), "%s", j.dump().c_str());
    if(std::strlen(g_cur_vec) + 1 >= sizeof(g_cur_vec))
    {
        g_cur_vec[0] = 0;
    }
    if(v.pre.size() != static_cast<std::size_t>(v.n) + 2 || v.post.size() != v.pre.size()
       || v.s.size() > static_cast<std::size_t>(v.n))
    {
        std::fprintf(stderr, "malformed vector: %s\n", j.dump().c_str());
        std::exit(3);
    }
    // a transition is non-trivial when it reads or writes a cell or returns something
    if(!(v.op == "fill" && v.n == 0))
    {
        rep.note_distinct(j["act"].dump() + hex(v.pre));
    }
    if(v.n != C14_N)
    {
        return; // this binary is built for one array length (compile time)
    }
    run_direct<C14_N>(v);
    run_generated(v);
}

// ---- record mode: random call sequences on one live array, logged for -----
// ---- StaticArrayTrace.tla (every event: arguments + observed memory + ret) -
template<std::size_t N>
void record(rng& r, int episodes, int len, std::ostream& out)
{
    using S = direct<char, char, N>;
    using A = typename S::array_t;
    static const int alpha[3] = {0, 97, 98};
    static const char* eos_names[3] = {"none", "single", "all"};
    for(int e = 0; e < episodes; e++)
    {
        S sj;
        bytes pre(N + 2);
        pre[0] = 71;
        pre[N + 1] = 71;
        for(std::size_t i = 0; i < N; i++)
        {
            pre[i + 1] = static_cast<std::uint8_t>(alpha[r.below(3)]);
        }
        sj.inject(pre);
        out << json({{"e", "Reset"}, {"mem", from_bytes(sj.mem)}}).dump() << "\n";
        for(int k = 0; k < len; k++)
        {
            A a = sj.array();
            const std::size_t l = static_cast<std::size_t>(r.below(N + 1));
            const int kind = static_cast<int>(r.below(9));
            const bool cstr = kind == 0;
            std::string s;
            for(std::size_t i = 0; i < l; i++)
            {
                s.push_back(static_cast<char>(alpha[cstr ? 1 + r.below(2) : r.below(3)]));
            }
            const int m = static_cast<int>(r.below(3));
            const sbepp::eos_null mode = eos_of(eos_names[m]);
            const int val = alpha[r.below(3)];
            json ev;
            long ret = -1;
            json js = json::array();
            for(char c : s)
            {
                js.push_back(static_cast<int>(static_cast<unsigned char>(c)));
            }
            switch(kind)
            {
            case 0:
                ret = a.assign_string(s.c_str(), mode) - a.begin();
                ev = {{"e", "assign_string_ptr"}, {"s", js}, {"eos", eos_names[m]}};
                break;
            case 1:
                ret = a.assign_string(s, mode) - a.begin();
                ev = {{"e", "assign_string_range"}, {"s", js}, {"eos", eos_names[m]}};
                break;
            case 2:
                ret = a.assign_range(s) - a.begin();
                ev = {{"e", "assign_range"}, {"s", js}};
                break;
            case 3:
                ret = a.assign(l, static_cast<char>(val)) - a.begin();
                ev = {{"e", "assign_count"}, {"count", l}, {"value", val}};
                break;
            case 4:
                ret = a.assign(s.begin(), s.end()) - a.begin();
                ev = {{"e", "assign_iters"}, {"s", js}};
                break;
            case 5:
            {
                const std::vector<char> t(s.begin(), s.end());
                switch(l)
                {
                case 0:
                    ret = a.assign(std::initializer_list<char>{}) - a.begin();
                    break;
                case 1:
                    ret = a.assign({t[0]}) - a.begin();
                    break;
                case 2:
                    ret = a.assign({t[0], t[1]}) - a.begin();
                    break;
                case 3:
                    ret = a.assign({t[0], t[1], t[2]}) - a.begin();
                    break;
                default:
                    ret = a.assign({t[0], t[1], t[2], t[3]}) - a.begin();
                }
                ev = {{"e", "assign_ilist"}, {"s", js}};
                break;
            }
            case 6:
                a.fill(static_cast<char>(val));
                ev = {{"e", "fill"}, {"value", val}};
                break;
            case 7:
                ret = static_cast<long>(a.strlen());
                ev = {{"e", "strlen"}};
                break;
            default:
                ret = static_cast<long>(a.strlen_r());
                ev = {{"e", "strlen_r"}};
            }
            ev["ret"] = ret;
            ev["mem"] = from_bytes(sj.mem);
            out << ev.dump() << "\n";
        }
    }
}

int main(int argc, char** argv)
{
    if(argc >= 3 && std::string(argv[1]) == "replay")
    {
        for(int signo : {SIGSEGV, SIGBUS, SIGABRT, SIGFPE, SIGILL})
        {
            std::signal(signo, on_crash);
        }
        for_each_line(argv[2], [](const json& j) { replay_one(j); });
        json extra;
        extra["checked_build"] = C14_CHECKED != 0;
        extra["has_ranges"] = SBEPP_HAS_RANGES != 0;
        extra["consteval_at_runtime"] = consteval_branch_at_runtime();
        rep.finish(extra);
        return 0;
    }
    if(argc >= 7 && std::string(argv[1]) == "record")
    {
        rng r(std::stoull(argv[2]));
        const int episodes = std::stoi(argv[3]);
        const int len = std::stoi(argv[4]);
        std::ofstream out(argv[5]);
        if(std::stoi(argv[6]) != C14_N)
        {
            std::fprintf(stderr, "this binary is built for N=%d\n", C14_N);
            return 3;
        }
        record<C14_N>(r, episodes, len, out);
        return 0;
    }
    std::fprintf(stderr, "usage: c14_arrays replay <vectors> | record <seed> <episodes> <len> <out> <N>\n");
    return 3;
}
